"""Per-property run configuration for verif.py.

units: test functions of the property's Go package. kind "rapid" = rapid
property sharded by seed (n = cases per shard); kind "plain" = a Go test that
enumerates / stresses on its own and reads VERIF_TIER, VERIF_SEED, VERIF_SHARD,
VERIF_N; kind "fuzz" = native go fuzzing for n seconds (thorough tier only).
"""

def rapid(test, quick, thorough, **kw):
    d = dict(test=test, kind="rapid", n=dict(quick=quick, thorough=thorough))
    d.update(kw)
    return d

def plain(test, quick=1, thorough=1, **kw):
    d = dict(test=test, kind="plain", n=dict(quick=quick, thorough=thorough))
    d.update(kw)
    return d

def fuzz(test, seconds, **kw):
    d = dict(test=test, kind="fuzz", n=dict(quick=0, thorough=seconds), tiers=("thorough",), shards=dict(quick=0, thorough=1))
    d.update(kw)
    return d

COMMON_ASSUME = [
    "the reference models in /verif/harness/ref (RFC 8259 reader, RFC 6902 evaluator in the documented dialect, RFC 7396 merge) are correct; they share no code with the library and were cross-validated against it on the repaired tree",
    "the Go toolchain, pgregory.net/rapid v1.3.0 and the driver /verif/verif.py",
    "absence is not established: generated-input search only",
]

NOT_YET = "check not built yet in this session (work in progress; the design in DESIGN.md section 4 applies)"
NOT_APPLICABLE = {("C%02d" % i): NOT_YET for i in range(1, 21)}

PROPS = {
    "C01": dict(
        pkg="c01", units=[rapid("TestProp", 15000, 200000)], assumptions=COMMON_ASSUME,
        technique="property-based testing (rapid): state-aware generated operation sequences vs an independent RFC 6902 reference evaluator",
        level_text="Generated-input search: every generated (document, operation sequence, SupportNegativeIndices) is evaluated by an independent RFC 6902 model in the documented dialect and by DecodePatch+ApplyWithOptions; success/failure must agree and on success the output, read by an independent literal-preserving JSON reader, must equal the model's document. Exploration, not proof: it bounds what was tried (counts, classes and samples are in the evidence).",
        level_note="Trusted: the reference evaluator and JSON reader in harness/ref, rapid, the Go toolchain. Domain exclusions are exactly those of the property's quantifier and are counted in the evidence.",
    ),
}
