"""Per-property run configuration for verif.py.

units: test functions of the property's Go package. kind "rapid" = rapid
property sharded by seed (n = cases per shard); kind "plain" = a Go test that
enumerates / stresses on its own and reads VERIF_TIER, VERIF_SEED, VERIF_SHARD,
VERIF_N; kind "fuzz" = native go fuzzing for n seconds (thorough tier only).
"""

def rapid(test, quick, thorough, **kw):
    d = dict(test=test, kind="rapid", n=dict(quick=quick, thorough=thorough))
    d.update(kw)
    return d

def plain(test, quick=1, thorough=1, **kw):
    d = dict(test=test, kind="plain", n=dict(quick=quick, thorough=thorough))
    d.update(kw)
    return d

def fuzz(test, seconds, **kw):
    d = dict(test=test, kind="fuzz", n=dict(quick=0, thorough=seconds), tiers=("thorough",), shards=dict(quick=0, thorough=1))
    d.update(kw)
    return d

COMMON_ASSUME = [
    "the reference models in /verif/harness/ref (RFC 8259 reader, RFC 6902 evaluator in the documented dialect, RFC 7396 merge) are correct; they share no code with the library and were cross-validated against it on the repaired tree",
    "the Go toolchain, pgregory.net/rapid v1.3.0 and the driver /verif/verif.py",
    "absence is not established: generated-input search only",
]

NOT_YET = "check not built yet in this session (work in progress; the design in DESIGN.md section 4 applies)"
NOT_APPLICABLE = {("C%02d" % i): NOT_YET for i in range(1, 21)}

PROPS = {
    "C01": dict(
        pkg="c01", units=[rapid("TestProp", 45000, 200000), fuzz("FuzzApply", 90)], assumptions=COMMON_ASSUME,
        technique="property-based testing (rapid): state-aware generated operation sequences vs an independent RFC 6902 reference evaluator; coverage-guided native fuzzing of the same oracle over raw bytes in the thorough tier",
        level_text="Generated-input search: every generated (document, operation sequence, SupportNegativeIndices) is evaluated by an independent RFC 6902 model in the documented dialect and by DecodePatch+ApplyWithOptions; success/failure must agree and on success the output, read by an independent literal-preserving JSON reader, must equal the model's document. Exploration, not proof: it bounds what was tried (counts, classes and samples are in the evidence).",
        level_note="Trusted: the reference evaluator and JSON reader in harness/ref, rapid, the Go toolchain. Domain exclusions are exactly those of the property's quantifier and are counted in the evidence.",
    ),
    "C05": dict(
        pkg="c05", units=[rapid("TestProp", 36000, 150000), rapid("TestPropEmpty", 24000, 100000), rapid("TestPropMerge", 30000, 150000), rapid("TestPropRepeat", 20000, 100000), fuzz("FuzzOrder", 60)], assumptions=COMMON_ASSUME,
        technique="property-based testing (rapid): ordered, literal-exact comparison with the reference evaluator; order-validity predicate for MergePatch; coverage-guided native fuzzing of the same oracle over raw bytes in the thorough tier",
        level_text="Generated-input search: Apply outputs are compared member-order- and literal-exactly with the ordered reference result (the model implements the stated order rules), the empty patch must reproduce the input in any spelling, and MergePatch outputs must satisfy the order predicate and carry every number literal. Exploration over generated documents with exotic literals and busy objects; no proof. A further unit adds one member to a root object that repeats a member name and requires the empty patch's output plus the new member, byte for byte.",
        level_note="Trusted: harness/ref (ordered tree, literal-preserving reader), rapid, Go toolchain. Order among members newly added by MergePatch is unspecified and not asserted.",
    ),
    "C08": dict(
        pkg="c08", units=[rapid("TestProp", 45000, 200000), fuzz("FuzzFail", 60)], assumptions=COMMON_ASSUME,
        technique="property-based testing (rapid): injected inapplicable operations, cause classes from an option-aware reference evaluator checked against errors.Is/As; metamorphic suffix-irrelevance; coverage-guided native fuzzing of the same oracle over raw bytes in the thorough tier",
        level_text="Generated-input search: each case holds an operation built to be inapplicable at a random position; the option-aware model names the first failing operation and its cause class, and the library must return (nil, err) with errors.Is(ErrTestFailed) / *AccumulatedCopySizeError exactly for the matching causes, ErrMissing for absent members and unreachable parents, and the same error when the suffix is cut off. Inputs come mostly in the encoder's own spelling and partly in other spellings; for those, copy sizes are measured in the outputs of the patch prefixes instead of modelled. Exploration only.",
        level_note="Trusted: harness/ref evaluator incl. its model of AllowMissingPathOnRemove, EnsurePathExistsOnAdd (clear domain only) and copy sizes; when an operation has two independent reasons to fail either classification is accepted.",
    ),
    "C12": dict(
        pkg="c12", units=[rapid("TestProp", 30000, 150000), rapid("TestPropV5Def", 15000, 60000), rapid("TestPropLegacy", 15000, 60000),
                          rapid("TestPropSpelled", 24000, 100000), rapid("TestPropSpelledLegacy", 15000, 60000)], assumptions=COMMON_ASSUME,
        technique="property-based testing (rapid): copy-heavy generated sequences, limit drawn around a reference running total of canonical sizes, and - for inputs in any spelling - around totals measured in the outputs of the patch prefixes (metamorphic); v5 option, v5 package default, staged legacy package",
        level_text="Generated-input search: the reference keeps the running total of the canonical (output-spelling) sizes of copied values; limits are drawn at, just below and just above the totals; the library must fail with *AccumulatedCopySizeError exactly when the total exceeds the limit, return no document then, and never fail at limit 0. Run through ApplyOptions, the v5 package variable and the legacy package variable. For inputs in any spelling (whitespace, other escapes) the sizes are not modelled but measured: each copy's size is the length of the copied value's text in the output of the patch prefix ending at that copy (limit disabled), and the limit is placed around those totals (v5 and legacy). One ApplyOptions value reused after a failing call must behave like fresh options. Exploration only.",
        level_note="Trusted: harness/ref size model (len of canonical text for the EscapeHTML setting; a copied null counts 0..4 bytes and limits inside that interval are excluded). The measured-size units trust the reference evaluator for where a copied value lands and the library's own prefix outputs for how it is spelled there.",
    ),
    "C13": dict(
        pkg="c13", units=[rapid("TestProp", 45000, 200000), fuzz("FuzzAllowMissing", 60)], assumptions=COMMON_ASSUME,
        technique="property-based testing (rapid): metamorphic relation (option on, P) == (option off, P minus skipped removes) with the skipped set computed by the reference evaluator; coverage-guided native fuzzing of the same oracle over raw bytes in the thorough tier",
        level_text="Generated-input search over remove-heavy sequences: the reference marks the removes whose target or ancestor is absent; applying P with the option must equal applying P without those removes and without the option (same outcome, same error class, same ordered document = the model's). Exploration only.",
        level_note="Trusted: harness/ref. Negative last tokens while negative indices are off, '-'/non-numeric tokens on arrays and remove of \"\" are outside the stated domain and excluded (counted).",
    ),
    "C14": dict(
        pkg="c14", units=[rapid("TestProp", 45000, 200000), rapid("TestPropSeq", 30000, 150000), fuzz("FuzzEnsure", 60)], assumptions=COMMON_ASSUME,
        technique="property-based testing (rapid): generated extension paths vs a reference ensure+add model, ordered comparison, independent pointer lookup, agreement with plain add; coverage-guided native fuzzing of the same oracle over raw bytes in the thorough tier",
        level_text="Generated-input search: an existing container path is extended by generated tokens (escaped names, indices, '-'); the output must equal the reference ensure+add result including member order (frame condition and 'nothing but path and padding' in one comparison), the value must be found at the path by an independent lookup, and the result must equal plain add's whenever plain add succeeds. Judged only in the property's clear domain. Exploration only.",
        level_note="Trusted: harness/ref ensure model. Excluded and counted: null/scalar on the path, last index beyond an existing array (a member name addressed into an existing array is a failure, as without the option), negative and non-canonical indices, '-' before the last token.",
    ),
    "C15": dict(
        pkg="c15", units=[rapid("TestProp", 18000, 80000), rapid("TestPropWF", 18000, 80000), plain("TestDeepResult", shards=dict(quick=1, thorough=1), timeout=dict(quick=900, thorough=3600)), fuzz("FuzzWellFormed", 60)], assumptions=COMMON_ASSUME,
        technique="property-based testing (rapid): strict RFC 8259 recogniser + UTF-8 + value round trip on every output; metamorphic relations EscapeHTML on/off, ApplyIndent vs re-indented Apply (encoding/json.Indent differential), inserted passing tests; coverage-guided native fuzzing of the same oracle over raw bytes in the thorough tier",
        level_text="Generated-input search over documents whose names and strings hold the HTML-sensitive characters: every successful output of the five functions must be one RFC 8259 text in valid UTF-8 denoting the reference value; the on/off outputs must differ in spelling only, obey the two escaping clauses, ApplyIndent / ApplyIndentWithOptions must equal an independent re-indentation of Apply / ApplyWithOptions byte for byte under both settings, and inserted passing tests must not change a byte. Exploration only.",
        level_note="Trusted: harness/ref recogniser and canonical writer, encoding/json.Indent of the default toolchain (cross-checked by an independent re-indenter). The byte-identity clauses are asserted only for inputs in the encoder's own spelling, as the quantifier states.",
    ),
    "C02": dict(
        pkg="c02", units=[rapid("TestProp", 60000, 300000), fuzz("FuzzMerge", 60)], assumptions=COMMON_ASSUME,
        technique="property-based testing (rapid): generated (document, merge patch) pairs vs the RFC 7396 reference algorithm; coverage-guided native fuzzing of the same oracle over raw bytes in the thorough tier",
        level_text="Generated-input search: documents and merge patches (mutations of the document so that recursion, deletion and type change at depth happen; nulls at every depth, also in objects nested inside arrays; all root types) are merged by MergePatch and by the five-line RFC 7396 algorithm on an independent tree; results must be structurally equal with number literals intact. Exploration only.",
        level_note="Trusted: harness/ref Merge and reader. Null documents and duplicate member names are outside the domain.",
    ),
    "C03": dict(
        pkg="c03", units=[rapid("TestProp", 45000, 250000), rapid("TestPropArr", 18000, 80000), rapid("TestPropReject", 15000, 60000), fuzz("FuzzCreate", 60)], assumptions=COMMON_ASSUME,
        technique="property-based testing (rapid): round trip create -> apply through the RFC 7396 reference and through the library, plus a minimality validity predicate; generated rejection pairs; coverage-guided native fuzzing of the same oracle over raw bytes in the thorough tier",
        level_text="Generated-input search: for object pairs (B a mutation of A, built without null members) and equal-length arrays of such pairs, the created patch must reproduce B through the reference merge and the library's MergePatch, be {} iff A=B, and pass a walk that checks every mentioned member differs, removals are nulls, nested objects hold the recursive difference and number literals are B's; pairs of other roots must be rejected. Exploration only.",
        level_note="Trusted: harness/ref. B with a null-valued member, numerically-equal-but-differently-spelled numbers, null roots and null elements are outside the stated domain (excluded, counted).",
    ),
    "C06": dict(
        pkg="c06", units=[rapid("TestProp", 75000, 400000), rapid("TestPropTriple", 30000, 150000), rapid("TestPropMalformed", 45000, 200000), fuzz("FuzzEqual", 60)], assumptions=COMMON_ASSUME,
        technique="property-based testing (rapid): re-serialised / one-edit / independent pairs vs structural equality on an independent tree; equivalence-relation laws on pairs and triples; malformed inputs; coverage-guided native fuzzing of the same oracle over raw bytes in the thorough tier",
        level_text="Generated-input search: pairs that are equal up to member order, whitespace and escaping, pairs one small edit apart (null<->absent, {}<->[]<->null, renamed member, swapped elements...) and independent pairs are judged by Equal and by structural equality on the independent tree; symmetry, reflexivity and (on triples) transitivity are checked; malformed arguments must give false. Exploration only. Includes number pairs differing only in the exponent or the last fraction digit, and well-formed texts wrapped in byte order marks, comments and other things lenient readers skip (must be rejected).",
        level_note="Trusted: harness/ref reader and Equal. Pairs with numerically-equal-but-differently-spelled numbers, lone surrogate escapes, invalid UTF-8 or duplicate names are excluded.",
    ),
    "C07": dict(
        pkg="c07", units=[rapid("TestProp", 45000, 200000), fuzz("FuzzCompose", 60)], assumptions=COMMON_ASSUME,
        technique="property-based testing (rapid): composition law checked through the RFC 7396 reference and through the library's own MergePatch; coverage-guided native fuzzing of the same oracle over raw bytes in the thorough tier",
        level_text="Generated-input search over triples (D, P1, P2) with P2 mostly a mutation of P1 and nulls at every depth: applying MergeMergePatches(P1,P2) must equal applying P1 then P2, via the reference algorithm and via the library; a non-object P2 must come back as the combined patch. Incompatible pairs are excluded by the property's own condition. Exploration only. For a P1 that repeats a member name only the P1-independent clause is checked: every null member of P2 is a null member of the combined patch.",
        level_note="Trusted: harness/ref Merge. The compatibility condition is computed by the harness exactly as the statement gives it.",
    ),
    "C09": dict(
        pkg="c09",
        units=[rapid("TestProp", 900, 6000, memlimit="4GiB"), rapid("TestPropLegacy", 450, 3000, memlimit="4GiB")],
        assumptions=COMMON_ASSUME + ["a Patch value is observed through its exported representation (a slice of maps from member name to raw message): keys, pointer identities and bytes; input buffers are observed over their full capacity",
                                     "the history-free answer is taken from a fresh process (this test binary re-executed) that performs only that call (for the Apply family: DecodePatch then the call)",
                                     "the staged legacy root package is built from /repo's working tree as module github.com/evanphx/json-patch"],
        technique="stateful property-based testing (rapid): generated call histories over shared buffers and shared decoded Patch values; invariants after every step (inputs incl. spare capacity, Patch snapshots, earlier outputs unchanged), memoised results per call signature forwards and in reverse, and a fresh-process oracle for sampled calls",
        level_text="Generated-input search over call histories: 4-40 calls of every exported function over a pool of shared buffers (documents, patches, merge patches, malformed texts) and shared decoded Patch values, v5 and the staged legacy package. After every call all inputs (with sentinel-filled spare capacity), every Patch and every earlier output must be unchanged; a call signature must give the same result (bytes for Apply/ApplyIndent/CreateMergePatch/Equal/DecodePatch, JSON value for MergePatch/MergeMergePatches, error text) wherever it occurs, with a reused or fresh Patch, forwards and again in reverse order; sampled calls must equal the result of a fresh process doing only that call. Exploration only.",
        level_note="Trusted: harness/calls (call execution and snapshots), os/exec re-execution of the test binary as the history-free reference. Purity is observed on the public API; package-level defaults are not varied.",
    ),
    "C10": dict(
        pkg="c10",
        units=[rapid("TestProp", 400, 5000, race=True, memlimit="6GiB", shrinktime="20s"), rapid("TestPropLegacy", 200, 2500, race=True, memlimit="6GiB", shrinktime="20s"),
               rapid("TestPropTogether", 24, 60, race=True, memlimit="6GiB", shrinktime="20s"), rapid("TestPropTogetherLegacy", 12, 30, race=True, memlimit="6GiB", shrinktime="20s")],
        assumptions=COMMON_ASSUME + ["the Go race detector (go1.23.5, -race) reports unsynchronised conflicting accesses that execute during a workload; schedules are sampled, not enumerated",
                                     "the expected result of each call is the one computed sequentially in the same process before the goroutines start (C09 separately checks that results do not depend on history)",
                                     "the staged legacy root package is built from /repo's working tree as module github.com/evanphx/json-patch"],
        technique="property-based testing (rapid) of generated concurrent workloads under the Go race detector: shared Patch values and buffers, generated GOMAXPROCS/yields/rounds, cold starts in fresh processes; oracle = race reports + equality with sequentially computed results + unchanged shared inputs",
        level_text="Generated-input search over concurrent workloads built with -race: 2-16 goroutines behind a start barrier run generated call lists (all exported functions, mostly the same calls on the same shared Patch values and buffers, some on private copies) for 1-3 rounds under GOMAXPROCS 1/2/4/16 with generated yields; some workloads run as cold starts in a fresh process so that first uses of pools and caches are concurrent. Any race report, any result that differs from the sequentially computed one (bytes for Apply/CreateMergePatch/Equal, JSON value for the merge functions, error text) and any change to a shared input is a violation. Exploration: schedules are sampled; the race detector makes detection depend on the conflicting accesses executing, not on the corrupting interleaving occurring. 'Together' workloads: 6-16 goroutines all start with the same long-running call (objects nested 1 000-3 500 levels, texts of 33-180 KiB, one of them ill-formed) so that many are inside it at once; a goroutine writes to its private argument copies again as soon as a call has returned, so a library goroutine outliving the call is a race.",
        level_note="Trusted: the Go race detector and runtime, harness/calls. A logical race on correctly synchronised state is only seen if it changes a result during the stress (DESIGN.md section 6). Package-level defaults are never written during a workload.",
    ),
    "C11": dict(
        pkg="c11", units=[rapid("TestProp", 60000, 200000), plain("TestTable", shards=dict(quick=1, thorough=1)), fuzz("FuzzDecode", 60)], assumptions=COMMON_ASSUME,
        technique="property-based testing (rapid) over member mutations of valid patches plus an exhaustively enumerated single-mutation table; independent validator as oracle; coverage-guided native fuzzing of the same oracle over raw bytes in the thorough tier",
        level_text="Generated-input search plus a complete table of single mutations (kind x member x {delete, null, retype, rename, duplicate} and element/root/op-string changes): DecodePatch must accept exactly what the independent reader and validator accept, return a nil Patch on reject, and the accessors must return the decoded members (numbers by literal). Exploration; the table is complete for single mutations of the listed kinds only.",
        level_note="Trusted: harness/ref reader and the validator in c11 (written from the property statement). Duplicated members whose first and last occurrence disagree are ambiguous and excluded; the text null is outside the domain.",
    ),
    "C18": dict(
        pkg="c18", units=[rapid("TestProp", 45000, 200000), fuzz("FuzzLegacyApply", 60)], assumptions=COMMON_ASSUME + ["the legacy root package is staged from /repo's working tree as module github.com/evanphx/json-patch (it has no go.mod of its own)"],
        technique="property-based testing (rapid): the C01 generator and RFC 6902 reference evaluator against the staged legacy package, restricted to what v4 claims; coverage-guided native fuzzing of the same oracle over raw bytes in the thorough tier",
        level_text="Generated-input search against a staged copy of the root package: all-applicable patches must succeed with the RFC result up to member order and with number literals intact; a first failure that is a failed test, a remove/move of an absent location, an out-of-range or negative-while-off index must give an error and no document. Exploration only.",
        level_note="Trusted: harness/ref. Excluded (counted): root-replacing add, copy from \"\", test values whose strings need escaping or hold <,>,&, and first failures v4 does not claim to report (e.g. replace/copy of an absent member, which v4 accepts).",
    ),
    "C19": dict(
        pkg="c19", units=[rapid("TestPropMerge", 30000, 100000), rapid("TestPropCreate", 30000, 100000), rapid("TestPropCompose", 30000, 100000), rapid("TestPropEqual", 30000, 100000)],
        assumptions=COMMON_ASSUME + ["the legacy root package is staged from /repo's working tree as module github.com/evanphx/json-patch"],
        technique="property-based testing (rapid): the C02/C03/C06/C07 oracles (RFC 7396 reference, create->apply round trip + minimality, composition law, structural equality) against the staged legacy package in v4's domains",
        level_text="Generated-input search against a staged copy of the root package: MergePatch vs the RFC 7396 reference for object/array patches, CreateMergePatch round trip and minimality for float64-spelled numbers, the MergeMergePatches composition law, and Equal vs structural equality on escape-free object/array texts. Exploration only.",
        level_note="Trusted: harness/ref and harness/laws. Domains restricted exactly as the property states (numbers as Go prints a float64, no escape sequences for Equal, object/array patches).",
    ),
    "C20": dict(
        pkg="c20", helpers=["cli-v5", "cli-legacy"],
        units=[rapid("TestProp", 1500, 8000), rapid("TestPropLegacy", 500, 5000), plain("TestManyFiles", shards=dict(quick=1, thorough=1))],
        assumptions=COMMON_ASSUME + ["the binaries are built by the driver from /repo's working tree (v5/cmd/json-patch with plain -mod=readonly; cmd/json-patch from the staged legacy module)"],
        technique="property-based testing (rapid) of the built binaries: differential against an in-process fold of the library's own DecodePatch/Apply over generated stdin documents and ordered patch-file lists",
        level_text="Generated-input search on the real executables: for each generated stdin document and ordered list of patch files (applicable, failing, malformed, missing, directory; all four flag spellings) the exit status, stdout and stderr are compared with the fold of the library calls: byte-identical stdout and exit 0 on success; no stdout, a message on stderr and a non-zero exit otherwise. Exploration only.",
        level_note="Trusted: the library itself as the reference for what 'applying the patches' means (C01 covers that), os/exec. Cases on which the library panics in process are excluded here (C04).",
    ),
    "C04": dict(
        pkg="c04",
        units=[rapid("TestPropBytes", 5000, 60000, memlimit="6GiB"), rapid("TestPropStruct", 2500, 30000, memlimit="6GiB"),
               rapid("TestPropBytesLegacy", 4000, 40000, memlimit="6GiB"), rapid("TestPropStructLegacy", 3000, 30000, memlimit="6GiB"),
               plain("TestDeep", shards=dict(quick=4, thorough=16), timeout=dict(quick=900, thorough=3600)),
               plain("TestTable", shards=dict(quick=8, thorough=16)),
               plain("TestBig", shards=dict(quick=4, thorough=8)),
               fuzz("FuzzV5", 120), fuzz("FuzzLegacy", 90)],
        exhaustive_units=[],
        assumptions=COMMON_ASSUME + ["a panic is observed by recover() around the library call only; a hang is nominated by a 30 s per-case wall-clock watchdog and only a confirmation under a CPU-time limit would be reported",
                                     "the library is quadratic in nesting depth (lazy re-parsing per level, also on the pinned tree): ~10 s per call at depth 10 000 is slow, not a hang"],
        technique="property-based testing (rapid) with hostile byte-level and structure-level generators over every entry point, option combination and the legacy package; enumerated deep-nesting cases at the codec's limit and an enumerated table of operation shapes; hang confirmation under a CPU-time limit; native go fuzzing in the thorough tier",
        level_text="Generated-input search: every exported entry point of v5 and of the staged legacy package is called (inside recover) with hostile byte strings and with hostile documents x patches from a loose grammar under all option combinations, root replacements first, nesting at 9 999/10 000/10 001 levels, runs of malformed UTF-8 and lone-surrogate escapes spliced into string literals, whitespace padding, and a completely enumerated table of single operations (op x path x from x value member shapes incl. absent and null, alone and after a root replacement, x 12 small documents); the thorough tier adds coverage-guided native fuzzing of the same check. A violation is a recovered panic, a dead process, or a confirmed hang. Exploration only.",
        level_note="Trusted: recover() observes every panic of the calling goroutine (the library starts no goroutines). Outside the stated domain and not generated: nil options, hand-assembled Patch values, array indices above 10^4 under EnsurePathExistsOnAdd.",
    ),
    "C16": dict(
        pkg="c16",
        units=[plain("TestEnumBytes", shards=dict(quick=8, thorough=16)), plain("TestEnumTokens", shards=dict(quick=4, thorough=16)), plain("TestEnumStrings", shards=dict(quick=6, thorough=16)),
               plain("TestDepthLimit", shards=dict(quick=1, thorough=1)),
               rapid("TestProp", 20000, 300000), rapid("TestPropEntry", 20000, 300000), fuzz("FuzzValid", 120)],
        exhaustive_units=["enum-bytes", "enum-tokens", "enum-strings"],
        assumptions=COMMON_ASSUME + ["the recogniser harness/ref.Valid implements the RFC 8259 ABNF with the codec's nesting limit of 10000; it is cross-checked against encoding/json.Valid of the default toolchain on every input (a disagreement between those two is reported as a harness fault, not as a library defect)"],
        technique="bounded exhaustive enumeration (all byte strings <= L over a 29-symbol alphabet, all token sequences <= L) plus property-based testing (rapid) of unbounded mutated texts and of every public entry point, differential against an independent RFC 8259 recogniser and encoding/json; native fuzzing in the thorough tier",
        level_text="Exhaustive over two bounded spaces (every byte string of length <= 5 (quick) / 6 (thorough) over a 29-symbol alphabet; every sequence of <= 5/6 JSON tokens) and generated-input search beyond them (mutated texts, grammar corners, exact nesting limits, whitespace-padded and damaged arguments of every public entry point): acceptance by Valid/Compact/Indent/Unmarshal and by the public functions must coincide with the recogniser. Exhaustive only within the stated bounds; exploration elsewhere.",
        level_note="Trusted: harness/ref.Valid (cross-checked against encoding/json.Valid on every input). Known finding (listed, not repaired): Patch.Apply* returns (doc, nil) for a zero-length document.",
    ),
    "C17": dict(
        pkg="c17",
        units=[rapid("TestPropRoundTrip", 16000, 120000), rapid("TestPropTransforms", 30000, 300000), rapid("TestPropTypes", 30000, 250000), rapid("TestPropValues", 30000, 250000), rapid("TestPropStreams", 20000, 250000), rapid("TestPropTypeErrors", 20000, 250000),
               fuzz("FuzzRoundTrip", 90), fuzz("FuzzToken", 90)],
        assumptions=COMMON_ASSUME + ["encoding/json of the default toolchain (go1.23.5) is the reference for everything the fork shares with it; known, normalised differences: spelling of U+0008/U+000C, the distinct Number type (Decoder.UseNumber on the standard side); error message texts are not compared, only dynamic error types - except UnmarshalTypeError, whose Value, Type, Offset, Struct, Field and text are compared for declared struct types while the toolchain is go1.23.x (200000 generated cases agree on the unchanged tree)"],
        technique="property-based testing (rapid): decode->encode round trip through an independent reader; byte-exact text-transform oracles; differential testing against encoding/json over reflect.StructOf-generated types with type-directed inputs and over Decoder/Encoder streams; native fuzzing in the thorough tier",
        level_text="Generated-input search: (a) every decode function x target kind x encode function round trips generated texts (literals, code points, order; key lists in document order); (b) Compact/Indent/HTMLEscape equal independent byte-exact transforms and encoding/json; (c) on run-time generated struct/map/slice/pointer types with tags, Unmarshal errors, decoded values and Marshal/MarshalEscaped/MarshalIndent bytes equal encoding/json's, also for Go values built directly (strings with arbitrary bytes, floats with exponents, NaN/Inf, nil vs empty, long byte slices, Marshaler/TextMarshaler hook types, embedding chains); (d) Decoder (More, Token, Decode, Buffered, InputOffset) and Encoder traces equal encoding/json's under chunked reads; (e) typed decodes into declared struct types with wrong-typed values: same value after the error and the same UnmarshalTypeError fields and text. Exploration only.",
        level_note="Trusted: harness/ref reader, encoding/json of go1.23.5 as differential reference, reflect.StructOf (types it cannot build are excluded and counted). omitzero (go1.24) and custom Marshaler types are not generated.",
    ),
}
