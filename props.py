"""Per-property run configuration for verif.py.

units: test functions of the property's Go package. kind "rapid" = rapid
property sharded by seed (n = cases per shard); kind "plain" = a Go test that
enumerates / stresses on its own and reads VERIF_TIER, VERIF_SEED, VERIF_SHARD,
VERIF_N; kind "fuzz" = native go fuzzing for n seconds (thorough tier only).
"""

def rapid(test, quick, thorough, **kw):
    d = dict(test=test, kind="rapid", n=dict(quick=quick, thorough=thorough))
    d.update(kw)
    return d

def plain(test, quick=1, thorough=1, **kw):
    d = dict(test=test, kind="plain", n=dict(quick=quick, thorough=thorough))
    d.update(kw)
    return d

def fuzz(test, seconds, **kw):
    d = dict(test=test, kind="fuzz", n=dict(quick=0, thorough=seconds), tiers=("thorough",), shards=dict(quick=0, thorough=1))
    d.update(kw)
    return d

COMMON_ASSUME = [
    "the reference models in /verif/harness/ref (RFC 8259 reader, RFC 6902 evaluator in the documented dialect, RFC 7396 merge) are correct; they share no code with the library and were cross-validated against it on the repaired tree",
    "the Go toolchain, pgregory.net/rapid v1.3.0 and the driver /verif/verif.py",
    "absence is not established: generated-input search only",
]

NOT_YET = "check not built yet in this session (work in progress; the design in DESIGN.md section 4 applies)"
NOT_APPLICABLE = {("C%02d" % i): NOT_YET for i in range(1, 21)}

PROPS = {
    "C01": dict(
        pkg="c01", units=[rapid("TestProp", 15000, 200000)], assumptions=COMMON_ASSUME,
        technique="property-based testing (rapid): state-aware generated operation sequences vs an independent RFC 6902 reference evaluator",
        level_text="Generated-input search: every generated (document, operation sequence, SupportNegativeIndices) is evaluated by an independent RFC 6902 model in the documented dialect and by DecodePatch+ApplyWithOptions; success/failure must agree and on success the output, read by an independent literal-preserving JSON reader, must equal the model's document. Exploration, not proof: it bounds what was tried (counts, classes and samples are in the evidence).",
        level_note="Trusted: the reference evaluator and JSON reader in harness/ref, rapid, the Go toolchain. Domain exclusions are exactly those of the property's quantifier and are counted in the evidence.",
    ),
    "C05": dict(
        pkg="c05", units=[rapid("TestProp", 12000, 150000), rapid("TestPropEmpty", 8000, 100000), rapid("TestPropMerge", 10000, 150000)], assumptions=COMMON_ASSUME,
        technique="property-based testing (rapid): ordered, literal-exact comparison with the reference evaluator; order-validity predicate for MergePatch",
        level_text="Generated-input search: Apply outputs are compared member-order- and literal-exactly with the ordered reference result (the model implements the stated order rules), the empty patch must reproduce the input in any spelling, and MergePatch outputs must satisfy the order predicate and carry every number literal. Exploration over generated documents with exotic literals and busy objects; no proof.",
        level_note="Trusted: harness/ref (ordered tree, literal-preserving reader), rapid, Go toolchain. Order among members newly added by MergePatch is unspecified and not asserted.",
    ),
    "C08": dict(
        pkg="c08", units=[rapid("TestProp", 15000, 200000)], assumptions=COMMON_ASSUME,
        technique="property-based testing (rapid): injected inapplicable operations, cause classes from an option-aware reference evaluator checked against errors.Is/As; metamorphic suffix-irrelevance",
        level_text="Generated-input search: each case holds an operation built to be inapplicable at a random position; the option-aware model names the first failing operation and its cause class, and the library must return (nil, err) with errors.Is(ErrTestFailed) / *AccumulatedCopySizeError exactly for the matching causes, ErrMissing for absent members and unreachable parents, and the same error when the suffix is cut off. Exploration only.",
        level_note="Trusted: harness/ref evaluator incl. its model of AllowMissingPathOnRemove, EnsurePathExistsOnAdd (clear domain only) and copy sizes; when an operation has two independent reasons to fail either classification is accepted.",
    ),
    "C12": dict(
        pkg="c12", units=[rapid("TestProp", 10000, 150000), rapid("TestPropV5Def", 5000, 60000), rapid("TestPropLegacy", 5000, 60000)], assumptions=COMMON_ASSUME,
        technique="property-based testing (rapid): copy-heavy generated sequences, limit drawn around a reference running total of canonical sizes; v5 option, v5 package default, staged legacy package",
        level_text="Generated-input search: the reference keeps the running total of the canonical (output-spelling) sizes of copied values; limits are drawn at, just below and just above the totals; the library must fail with *AccumulatedCopySizeError exactly when the total exceeds the limit, return no document then, and never fail at limit 0. Run through ApplyOptions, the v5 package variable and the legacy package variable. Exploration only.",
        level_note="Trusted: harness/ref size model (len of canonical text for the EscapeHTML setting; a copied null counts 0..4 bytes and limits inside that interval are excluded). Inputs are spelled as the encoder spells them, as the property's quantifier states.",
    ),
    "C13": dict(
        pkg="c13", units=[rapid("TestProp", 15000, 200000)], assumptions=COMMON_ASSUME,
        technique="property-based testing (rapid): metamorphic relation (option on, P) == (option off, P minus skipped removes) with the skipped set computed by the reference evaluator",
        level_text="Generated-input search over remove-heavy sequences: the reference marks the removes whose target or ancestor is absent; applying P with the option must equal applying P without those removes and without the option (same outcome, same error class, same ordered document = the model's). Exploration only.",
        level_note="Trusted: harness/ref. Negative last tokens while negative indices are off, '-'/non-numeric tokens on arrays and remove of \"\" are outside the stated domain and excluded (counted).",
    ),
    "C14": dict(
        pkg="c14", units=[rapid("TestProp", 15000, 200000)], assumptions=COMMON_ASSUME,
        technique="property-based testing (rapid): generated extension paths vs a reference ensure+add model, ordered comparison, independent pointer lookup, agreement with plain add",
        level_text="Generated-input search: an existing container path is extended by generated tokens (escaped names, indices, '-'); the output must equal the reference ensure+add result including member order (frame condition and 'nothing but path and padding' in one comparison), the value must be found at the path by an independent lookup, and the result must equal plain add's whenever plain add succeeds. Judged only in the property's clear domain. Exploration only.",
        level_note="Trusted: harness/ref ensure model. Excluded and counted: null/scalar on the path, names addressed into arrays, last index beyond an existing array, negative and non-canonical indices, '-' before the last token.",
    ),
    "C15": dict(
        pkg="c15", units=[rapid("TestProp", 6000, 80000), rapid("TestPropWF", 6000, 80000)], assumptions=COMMON_ASSUME,
        technique="property-based testing (rapid): strict RFC 8259 recogniser + UTF-8 + value round trip on every output; metamorphic relations EscapeHTML on/off, ApplyIndent vs re-indented Apply (encoding/json.Indent differential), inserted passing tests",
        level_text="Generated-input search over documents whose names and strings hold the HTML-sensitive characters: every successful output of the five functions must be one RFC 8259 text in valid UTF-8 denoting the reference value; the on/off outputs must differ in spelling only, obey the two escaping clauses, ApplyIndent must equal an independent re-indentation byte for byte, and inserted passing tests must not change a byte. Exploration only.",
        level_note="Trusted: harness/ref recogniser and canonical writer, encoding/json.Indent of the default toolchain (cross-checked by an independent re-indenter). The byte-identity clauses are asserted only for inputs in the encoder's own spelling, as the quantifier states.",
    ),
}
