#!/usr/bin/env python3
"""Regenerates the table of DESIGN.md section 10 from seeded/*/meta.json (+ optional cross-matrix results dir)."""
import glob, json, os, re, sys
V = os.path.dirname(os.path.dirname(os.path.abspath(__file__)))
cross = sys.argv[1] if len(sys.argv) > 1 else None
rows = []
for d in sorted(glob.glob(os.path.join(V, "seeded", "*"))):
    name = os.path.basename(d)
    m = json.load(open(os.path.join(d, "meta.json")))
    ver = m.get("verified", {})
    q = ver.get("quick_check_results", {})
    caught = sorted(k for k, v in q.items() if v["exit"] == 1)
    others = []
    if cross and os.path.exists(os.path.join(cross, name + ".json")):
        try:
            c = json.load(open(os.path.join(cross, name + ".json")))
            allc = sorted(k for k, v in c.get("checks", {}).items() if v["exit"] == 1)
            others = [k for k in allc if k not in caught]
            incon = sorted(k for k, v in c.get("checks", {}).items() if v["exit"] == 2)
        except Exception:
            incon = []
    else:
        incon = []
    what = re.sub(r"\s+", " ", m.get("summary", ""))[:230]
    needs = re.sub(r"\s+", " ", m.get("needs", ""))[:200]
    note = ""
    if "missed_at_first" in ver:
        note = "missed at first: " + ver["missed_at_first"]
    if "not_caught" in ver:
        note = ver["not_caught"]
    prop = m["property"] + ("".join(" +" + x for x in m.get("also_breaks", []) if x.startswith("C")))
    rows.append((name, prop, what, needs, ", ".join(caught) or "-", ", ".join(others), note))
out = ["| change | breaks | what it changes | what it needs | caught by (own check, quick tier) | also caught by | note |", "|---|---|---|---|---|---|---|"]
for r in rows:
    out.append("| " + " | ".join(x.replace("|", "\\|") for x in r) + " |")
txt = "\n".join(out)
p = os.path.join(V, "DESIGN.md")
s = open(p).read()
b, e = "<!-- seedtable:begin -->", "<!-- seedtable:end -->"
if b in s:
    s = s[:s.index(b) + len(b)] + "\n" + txt + "\n" + s[s.index(e):]
    open(p, "w").write(s)
    print("updated %d rows" % len(rows))
else:
    print(txt)
