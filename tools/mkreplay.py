#!/usr/bin/env python3
"""mkreplay.py <PROP> <unit> <name> <message> <case-json>  -> replays/<PROP>/<name>.json"""
import json, os, sys
prop, unit, name, msg, case = sys.argv[1:6]
d = os.path.join(os.path.dirname(os.path.dirname(os.path.abspath(__file__))), "replays", prop)
os.makedirs(d, exist_ok=True)
obj = {"property": prop, "unit": unit, "message": msg, "case": json.loads(case)}
for kv in sys.argv[6:]:
    k, v = kv.split("=", 1)
    obj[k] = json.loads(v)
with open(os.path.join(d, name + ".json"), "w") as f:
    json.dump(obj, f, indent=1, ensure_ascii=False)
    f.write("\n")
print(os.path.join(d, name + ".json"))
