#!/usr/bin/env python3
import json, sys
e = json.load(open('/verif/evidence/%s.json' % sys.argv[1]))
c = e['coverage']
print(e['property_id'], e['tier'], 'eval', c['evaluations'], 'dom', c['in_domain'], 'distinctNT', c['distinct_nontrivial'], 'wall', e['wall_s'])
for n, u in c['units'].items():
    print('==', n, 'eval', u['evaluations'], 'dom', u['in_domain'], 'nt', u['nontrivial'], 'distinct', u['distinct_nontrivial'])
    print('  excluded:', u['excluded'])
    for k, v in sorted(u['classes'].items()):
        print('   %-60s %d' % (k, v))
    if u.get('extra'): print('  extra:', u['extra'])
