#!/usr/bin/env python3
"""Confirm a seeded change and run checks against it.

  tools/seedcheck.py <seed dir> [--checks ID,ID,...] [--tier quick] [--keep-into /verif/seeded]

For <seed dir> holding patch.diff, meta.json and a demonstration (demo_test.go for
the v5 package or - when the patch touches the root package only - for the staged
legacy package; or demo.sh / run_demo.sh taking the tree as argument):
  1. scratch copies of /repo under /tmp (clean and changed); the patch must apply;
  2. the pinned suite (cd v5 && go test ./...) must pass on the changed copy;
  3. the demonstration must pass on the clean copy and fail on the changed one;
  4. each named check (default: the property the seed names) runs against the
     changed copy through VERIF_REPO; exit 1 + VIOLATION = caught.
Prints one JSON object; nothing is written to /repo. Scratch copies are removed.
"""
import json
import os
import re
import shutil
import subprocess
import sys
import tempfile
import time

VERIF = os.path.dirname(os.path.dirname(os.path.abspath(__file__)))


def env():
    e = dict(os.environ)
    e.update(GOPROXY="off", GOSUMDB="off", GOTOOLCHAIN="local")
    e.pop("GOFLAGS", None)
    return e


def sh(cmd, cwd=None, timeout=1800, extra=None):
    e = env()
    if extra:
        e.update(extra)
    p = subprocess.run(cmd, cwd=cwd, env=e, shell=isinstance(cmd, str), stdout=subprocess.PIPE, stderr=subprocess.STDOUT, text=True, errors="replace", timeout=timeout)
    return p.returncode, p.stdout


def stage_legacy(tree, demo, dst):
    os.makedirs(dst)
    for f in ("patch.go", "merge.go", "errors.go"):
        shutil.copy(os.path.join(tree, f), dst)
    shutil.copy(demo, os.path.join(dst, "zz_demo_test.go"))
    with open(os.path.join(dst, "go.mod"), "w") as f:
        f.write("module github.com/evanphx/json-patch\n\ngo 1.18\n")


def run_demo(seed, tree, work, tag, legacy):
    """returns (passed, output tail)"""
    if not os.path.exists(os.path.join(seed, "demo_test.go")):
        for script in ("demo.sh", "run_demo.sh"):
            sp = os.path.join(seed, script)
            if os.path.exists(sp):
                rc, out = sh(["bash", sp, tree], cwd=work)
                return rc == 0, out[-1500:]
        return False, "no demonstration found"
    demo = os.path.join(seed, "demo_test.go")
    with open(demo) as f:
        names = re.findall(r"^func (Test\w+)\(", f.read(), re.M)
    pat = "^(%s)$" % "|".join(names)
    race = ["-race"] if "race" in json.load(open(os.path.join(seed, "meta.json"))).get("demo_cmd", "") else []
    if legacy:
        d = os.path.join(work, "legacy-" + tag)
        stage_legacy(tree, demo, d)
        rc, out = sh(["go", "test", "-vet=off", "-count=1"] + race + ["-run", pat, "."], cwd=d)
        return rc == 0, out[-1500:]
    meta = json.load(open(os.path.join(seed, "meta.json")))
    sub = "v5/internal/json" if re.search(r"package json\b", open(demo).read()) else "v5"
    dst = os.path.join(tree, sub, "zz_demo_test.go")
    shutil.copy(demo, dst)
    try:
        rc, out = sh(["go", "test", "-vet=off", "-count=1"] + race + ["-run", pat, "."], cwd=os.path.join(tree, sub))
    finally:
        os.remove(dst)
    return rc == 0, out[-1500:]


def main():
    seed = os.path.abspath(sys.argv[1])
    args = sys.argv[2:]
    meta = json.load(open(os.path.join(seed, "meta.json")))
    checks = [meta["property"]]
    tier = "quick"
    keep = None
    if "--checks" in args:
        checks = args[args.index("--checks") + 1].split(",")
    if "--tier" in args:
        tier = args[args.index("--tier") + 1]
    if "--keep-into" in args:
        keep = args[args.index("--keep-into") + 1]
    res = {"seed": os.path.basename(seed), "property": meta["property"]}
    work = tempfile.mkdtemp(prefix="seedcheck-")
    try:
        clean, mut = os.path.join(work, "clean"), os.path.join(work, "mut")
        for d in (clean, mut):
            shutil.copytree("/repo", d, ignore=shutil.ignore_patterns(".git"))
        rc, out = sh(["git", "apply", "--whitespace=nowarn", os.path.join(seed, "patch.diff")], cwd=mut)
        if rc != 0:
            rc, out = sh("patch -p1 -s < %s" % os.path.join(seed, "patch.diff"), cwd=mut)
        res["applies"] = rc == 0
        if rc != 0:
            res["error"] = out[-500:]
            print(json.dumps(res))
            return 1
        rc, out = sh(["go", "build", "./..."], cwd=os.path.join(mut, "v5"))
        rc2, out2 = sh(["go", "test", "-vet=off", "-count=1", "./..."], cwd=os.path.join(mut, "v5"))
        res["suite_passes"] = rc == 0 and rc2 == 0
        if not res["suite_passes"]:
            res["suite_output"] = (out + out2)[-800:]
        with open(os.path.join(seed, "patch.diff")) as f:
            touched = re.findall(r"^\+\+\+ b/(\S+)", f.read(), re.M)
        legacy = all(not t.startswith("v5/") for t in touched)
        res["touches"] = touched
        ok_clean, o1 = run_demo(seed, clean, work, "clean", legacy)
        ok_mut, o2 = run_demo(seed, mut, work, "mut", legacy)
        res["demo_passes_on_clean"] = ok_clean
        res["demo_fails_on_changed"] = not ok_mut
        if not ok_clean:
            res["demo_clean_output"] = o1
        if ok_mut:
            res["demo_changed_output"] = o2
        res["confirmed"] = bool(res["suite_passes"] and ok_clean and not ok_mut)
        res["checks"] = {}
        for cid in checks:
            t0 = time.time()
            e = {"VERIF_REPO": mut, "VERIF_OUT": os.path.join(work, "out"), "GOFLAGS": "-mod=mod"}
            rc, out = sh([sys.executable, os.path.join(VERIF, "verif.py"), "check", cid, "--tier", tier], cwd=VERIF, extra=e, timeout=7200)
            viol = [l for l in out.splitlines() if l.startswith("VIOLATION")]
            first = ""
            m = re.search(r"violated: (.*)", out)
            if m:
                first = m.group(1)[:400]
            elif "hang confirmed" in out:
                first = "hang confirmed"
            elif "DATA RACE" in out:
                first = "data race report"
            res["checks"][cid] = {"exit": rc, "violations": len(viol), "first": first, "wall_s": round(time.time() - t0, 1)}
        if keep and res["confirmed"]:
            dst = os.path.join(keep, os.path.basename(seed))
            shutil.rmtree(dst, ignore_errors=True)
            shutil.copytree(seed, dst)
    finally:
        shutil.rmtree(work, ignore_errors=True)
    print(json.dumps(res))
    return 0


if __name__ == "__main__":
    sys.exit(main())
