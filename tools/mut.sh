#!/bin/bash
# Sensitivity aid: run checks against a scratch copy of /repo with a patch applied.
#   tools/mut.sh <patch.diff> [--suite] <ID>...      (VERIF_TIER=quick by default)
# The copy lives under /tmp and is removed at the end; /repo is never touched.
set -u
patch=$(readlink -f "$1"); shift
suite=0
if [ "${1:-}" = "--suite" ]; then suite=1; shift; fi
work=$(mktemp -d /tmp/mut-XXXXXX)
trap 'rm -rf "$work"' EXIT
cp -r /repo "$work/repo"
rm -rf "$work/repo/.git"
if ! (cd "$work/repo" && patch -p1 -s < "$patch"); then echo "MUT patch does not apply"; exit 3; fi
export GOPROXY=off GOSUMDB=off GOTOOLCHAIN=local
if [ $suite = 1 ]; then
  (cd "$work/repo/v5" && env -u GOFLAGS go test -vet=off -count=1 ./... 2>&1 | tail -5)
  echo "MUT suite exit=${PIPESTATUS[0]}"
fi
for id in "$@"; do
  out=$(VERIF_REPO="$work/repo" VERIF_OUT="$work/out" python3 /verif/verif.py check "$id" --tier "${VERIF_TIER:-quick}" 2>&1)
  rc=$?
  echo "MUT $(basename "$(dirname "$patch")")/$(basename "$patch") $id exit=$rc $(echo "$out" | grep -c '^VIOLATION') violation lines; $(echo "$out" | grep -m1 -A3 'violated:' | tr '\n' ' ' | cut -c1-600)"
done
