// Package gen holds the rapid generators shared by the property packages:
// JSON documents over pools chosen to expose conversion and escaping, and
// state-aware RFC 6902 operation sequences (each operation is drawn while
// looking at the reference model's current document).
package gen

import (
	"fmt"
	"strings"

	"github.com/evanphx/json-patch/v5/xverif/ref"
	"pgregory.net/rapid"
)

// Pools. Member names include names that look like indices, names needing
// pointer escaping, non-ASCII, spaces and HTML characters; numbers are
// literals chosen to expose any conversion; strings need JSON escaping.
var (
	KeyPool   = []string{"a", "b", "c", "d", "0", "1", "-1", "x/y", "m~n", "~1", "é", "k k", "-", "<&>", "a/b~c", "e f", "%d", "b\\s", "ab", "k\\", "\ufffdz"}
	PlainKeys = []string{"a", "b", "c", "d", "e", "f", "k0", "k1"}
	NumPool   = []string{"0", "1", "-1", "2", "10", "1.0", "1.5", "-0", "1e2", "1E400", "12345678901234567890123", "0.1", "-2.50", "1e-7", "100000000000000000000", "0.30000000000000004", "2E+2", "9007199254740992", "9007199254740993", "1700000000", "1700000001", "1E-07", "2.50e+05", "-3e00", "0e0", "0E+0"}
	StrPool   = []string{"", "a", "b", "x y", "é", "<&>", "q\"uote", "back\\slash", "line\nfeed", "😀", " ", "tab\there", "</script>", "a&b", "u v w", "\u0001ctl", "/", "~", "25% off %s", "%!v(x)", "cr\rlf", "C:\\", "\U0001F3FF", "\U00010000\U0010FFFF"}
)

// Cfg selects pools and sizes.
type Cfg struct {
	Keys, Nums, Strs []string
	Width            int // max members/elements per container
	Depth            int
}

var Default = Cfg{Keys: KeyPool, Nums: NumPool, Strs: StrPool, Width: 4, Depth: 3}

// WithEmptyName is Default plus the empty member name - a perfectly good name
// for merge patches and equality (for JSON Pointer paths it would be the empty
// reference token, which the Apply properties place outside their domain).
var WithEmptyName = Cfg{Keys: append(append([]string{}, KeyPool...), "", ""), Nums: NumPool, Strs: StrPool, Width: 4, Depth: 3}

// Plain avoids everything that needs escaping and every exotic number.
var Plain = Cfg{Keys: PlainKeys, Nums: []string{"0", "1", "2", "7", "10", "-3", "1.5", "250"}, Strs: []string{"", "a", "b", "xyz", "hello", "v1"}, Width: 4, Depth: 3}

func (c Cfg) Scalar() *rapid.Generator[*ref.V] {
	return rapid.Custom(func(t *rapid.T) *ref.V {
		switch Uniform(t, 0, 6, "sk") {
		case 0:
			return ref.Null()
		case 1:
			return ref.Bool(rapid.Bool().Draw(t, "b"))
		case 2, 3:
			if OneIn(t, 200, "longnum") {
				return ref.Num(rapid.SampledFrom(LongNums).Draw(t, "ln"))
			}
			return ref.Num(rapid.SampledFrom(c.Nums).Draw(t, "n"))
		default:
			if OneIn(t, 80, "longstr") {
				return ref.Str(rapid.SampledFrom(LongStrs).Draw(t, "ls"))
			}
			return ref.Str(rapid.SampledFrom(c.Strs).Draw(t, "s"))
		}
	})
}

// LongStrs: strings around and beyond the sizes at which buffers are first
// grown or refilled (the decoder's 512-byte stream buffer, scratch buffers).
var LongStrs = []string{
	strings.Repeat("ab", 300), strings.Repeat("x", 511), strings.Repeat("x", 512), strings.Repeat("x", 513),
	strings.Repeat("é", 300), strings.Repeat("line\n<tag>&\"q\"\\", 120), strings.Repeat("\u2028 ", 200), strings.Repeat("😀", 1100),
}

// LongNums: number literals far longer than any machine number - a limit on
// the length of a literal, or a conversion on the way, shows on them.
var LongNums = []string{
	"1" + strings.Repeat("0", 400), "-" + strings.Repeat("9", 1100), "0." + strings.Repeat("0", 600) + "1",
	"1." + strings.Repeat("3", 513) + "e-400", "1e" + strings.Repeat("0", 40) + "5", "-0." + strings.Repeat("12", 2600) + "E+3",
}

// Value generates any JSON value of nesting at most depth.
func (c Cfg) Value(depth int) *rapid.Generator[*ref.V] {
	return rapid.Custom(func(t *rapid.T) *ref.V {
		k := 0
		if depth > 0 {
			k = Uniform(t, 0, 4, "vk")
		}
		switch k {
		case 3:
			return c.Array(depth).Draw(t, "a")
		case 4:
			return c.Object(depth).Draw(t, "o")
		default:
			return c.Scalar().Draw(t, "sc")
		}
	})
}

func (c Cfg) Array(depth int) *rapid.Generator[*ref.V] {
	return rapid.Custom(func(t *rapid.T) *ref.V {
		n := Uniform(t, 0, c.Width, "alen")
		a := ref.Arr()
		if depth > 0 && OneIn(t, 40, "longarr") {
			// a long array of scalars: two-digit indices, growth of the element slice
			n = Uniform(t, 11, 40, "alenlong")
			if OneIn(t, 5, "alenhuge") {
				n = Uniform(t, 126, 270, "alenhugen") // indices beyond one signed / unsigned byte
			}
			for i := 0; i < n; i++ {
				a.Arr = append(a.Arr, c.Scalar().Draw(t, "le"))
			}
			return a
		}
		for i := 0; i < n; i++ {
			a.Arr = append(a.Arr, c.Value(depth-1).Draw(t, "e"))
		}
		return a
	})
}

func (c Cfg) Object(depth int) *rapid.Generator[*ref.V] {
	return rapid.Custom(func(t *rapid.T) *ref.V {
		n := Uniform(t, 0, c.Width, "olen")
		o := ref.Obj()
		if depth > 0 && OneIn(t, 60, "wideobj") {
			// an object with many members (more than any pool of names gives)
			n = Uniform(t, 12, 36, "olenwide")
			for i := 0; i < n; i++ {
				o.Set(fmt.Sprintf("m%d", (i*7)%n), c.Scalar().Draw(t, "wv"))
			}
			return o
		}
		for i := 0; i < n; i++ {
			k := rapid.SampledFrom(c.Keys).Draw(t, "k")
			if OneIn(t, 150, "longkey") {
				k = strings.Repeat("n", 1100) + k // longer than any bounded error message or scratch buffer
			}
			if _, ok := o.Get(k); ok {
				continue
			}
			o.Set(k, c.Value(depth-1).Draw(t, "v"))
		}
		return o
	})
}

// Root generates an object- or array-rooted document.
func (c Cfg) Root() *rapid.Generator[*ref.V] {
	return rapid.Custom(func(t *rapid.T) *ref.V {
		var v *ref.V
		if OneIn(t, 4, "rootk") {
			v = c.Array(c.Depth).Draw(t, "ra")
		} else {
			v = c.Object(c.Depth).Draw(t, "ro")
		}
		if OneIn(t, 120, "deeproot") {
			// the same document below 12-40 levels of single-member containers
			for i, n := 0, Uniform(t, 12, 40, "deepn"); i < n; i++ {
				if (i+n)%3 == 0 {
					v = ref.Arr(v)
				} else {
					v = ref.ObjOf("a", v)
				}
			}
		}
		return v
	})
}

// Mutate produces a value near v: members deleted, added, replaced, recursed
// into, type changed at depth. Used for merge patches and diff targets.
func (c Cfg) Mutate(t *rapid.T, v *ref.V, depth int) *ref.V {
	out := v.Clone()
	if out.K == ref.KObj {
		n := Uniform(t, 1, 3, "nmut")
		if OneIn(t, 8, "nomut") {
			n = 0
		}
		for i := 0; i < n; i++ {
			// members holding objects, preferred when recursing
			var objKeys []string
			for j, k := range out.Keys {
				if out.Vals[j].K == ref.KObj {
					objKeys = append(objKeys, k)
				}
			}
			switch Uniform(t, 0, 6, "mk") {
			case 0: // delete
				if len(out.Keys) > 0 {
					out.Del(rapid.SampledFrom(out.Keys).Draw(t, "dk"))
				}
			case 1: // add or replace under a pool name
				out.Set(rapid.SampledFrom(c.Keys).Draw(t, "ak"), c.Value(depth).Draw(t, "nv"))
			case 2, 3, 4: // recurse, into an object member when there is one
				if len(objKeys) > 0 && depth > 0 {
					k := rapid.SampledFrom(objKeys).Draw(t, "ok")
					cv, _ := out.Get(k)
					out.Set(k, c.Mutate(t, cv, depth-1))
				} else if len(out.Keys) > 0 {
					k := rapid.SampledFrom(out.Keys).Draw(t, "rk")
					cv, _ := out.Get(k)
					out.Set(k, c.Mutate(t, cv, depth-1))
				} else {
					out.Set(rapid.SampledFrom(c.Keys).Draw(t, "ak2"), c.Value(depth).Draw(t, "nv2"))
				}
			case 5: // replace an existing member's value (often a type change; a number often by a close neighbour)
				if len(out.Keys) > 0 {
					k := rapid.SampledFrom(out.Keys).Draw(t, "ck")
					if cv, _ := out.Get(k); cv.K == ref.KNum && rapid.Bool().Draw(t, "near") {
						out.Set(k, ref.Num(Neighbour(t, cv.Num, "nb")))
					} else {
						out.Set(k, c.Value(depth).Draw(t, "cv"))
					}
				}
			case 6: // a new nested object that shares nothing yet
				out.Set(rapid.SampledFrom(c.Keys).Draw(t, "nk"), c.Object(max(depth, 1)).Draw(t, "no"))
			}
		}
		return out
	}
	if out.K == ref.KArr && len(out.Arr) > 0 && depth > 0 && rapid.Bool().Draw(t, "arrmut") {
		i := rapid.IntRange(0, len(out.Arr)-1).Draw(t, "ai")
		out.Arr[i] = c.Mutate(t, out.Arr[i], depth-1)
		return out
	}
	if !OneIn(t, 3, "swap") {
		return out
	}
	return c.Value(depth).Draw(t, "repl")
}

// Uniform draws an integer in [lo, hi] without rapid's bias towards small
// values (built from fair bits; still shrinks towards lo).
func Uniform(t *rapid.T, lo, hi int, label string) int {
	span := hi - lo + 1
	if span <= 1 {
		return lo
	}
	bits := 0
	for 1<<bits < span {
		bits++
	}
	v := 0
	for i := 0; i < bits+3; i++ {
		v <<= 1
		if rapid.Bool().Draw(t, label) {
			v |= 1
		}
	}
	return lo + v%span
}

// Percent is true with probability p/100 (unbiased).
func Percent(t *rapid.T, p int, label string) bool {
	return p > 0 && Uniform(t, 0, 99, label) < p
}

// OneIn is true with probability 1/n (unbiased).
func OneIn(t *rapid.T, n int, label string) bool {
	return Uniform(t, 0, n-1, label) == 0
}

// ---------- locations ----------

// Loc describes one location of a document.
type Loc struct {
	Ptr    string
	V      *ref.V
	Parent *ref.V // nil for the root
	Idx    int    // element index when Parent is an array
}

// Locations lists every location below (and excluding) the root. Members
// with an empty name are skipped (empty reference tokens are out of domain).
func Locations(root *ref.V) []Loc {
	var out []Loc
	var rec func(v *ref.V, pre string)
	rec = func(v *ref.V, pre string) {
		switch v.K {
		case ref.KObj:
			for i, k := range v.Keys {
				if k == "" {
					continue
				}
				p := pre + "/" + ref.EncodeTok(k)
				out = append(out, Loc{p, v.Vals[i], v, -1})
				rec(v.Vals[i], p)
			}
		case ref.KArr:
			for i, e := range v.Arr {
				p := fmt.Sprintf("%s/%d", pre, i)
				out = append(out, Loc{p, e, v, i})
				rec(e, p)
			}
		}
	}
	rec(root, "")
	return out
}

// Containers lists every object/array location including the root ("").
func Containers(root *ref.V) []Loc {
	out := []Loc{}
	if root.IsContainer() {
		out = append(out, Loc{"", root, nil, -1})
	}
	for _, l := range Locations(root) {
		if l.V.IsContainer() {
			out = append(out, l)
		}
	}
	return out
}

// ---------- state-aware operations ----------

// OpGen draws operations against the model's current document.
type OpGen struct {
	Cfg      Cfg
	Neg      bool     // SupportNegativeIndices in force
	Kinds    []string // sampled uniformly (repeat a kind to weight it)
	NearMiss int      // percent of paths that are near-misses
	// TestMismatch: percent of test operations whose value is not the current one.
	TestMismatch int
	// ValueDepth of add/replace/test values.
	ValueDepth int
	// NoRootOps: never add/replace/test "" nor copy from "".
	NoRootOps bool
	// Legacy: no root-replacing add and no copy from "" (the v4 API does not offer them).
	Legacy bool
	// MissKinds restricts the near-miss kinds (see Miss); nil = all ten.
	MissKinds []int
	// NoNegInner: never re-spell an inner array index negatively (properties whose domain excludes negative indices).
	NoNegInner bool
	// Orig: the document as it was before the first operation. A mismatching
	// test value is often the value the location had THEN (an implementation
	// that looks at stale text of an edited container lets such a test pass).
	Orig *ref.V
}

var AllKinds = []string{"add", "add", "remove", "replace", "move", "copy", "test", "test"}

func NewOpGen(neg bool) *OpGen {
	return &OpGen{Cfg: Default, Neg: neg, Kinds: AllKinds, NearMiss: 12, TestMismatch: 25, ValueDepth: 2}
}

// Calm lowers the failure rates so that sequences run deep.
// Swarm restricts the operation kinds of this sequence to a random subset of
// two to four kinds one time in three ("swarm testing": with all six kinds in
// every sequence, long runs of e.g. move/copy/remove on the same array - where
// their interactions live - are rare).
func (g *OpGen) Swarm(t *rapid.T) *OpGen {
	if !OneIn(t, 3, "swarm") {
		return g
	}
	all := []string{"add", "remove", "replace", "move", "copy", "test"}
	n := Uniform(t, 2, 4, "swarmn")
	var ks []string
	for len(ks) < n {
		k := all[Uniform(t, 0, len(all)-1, "swarmk")]
		dup := false
		for _, x := range ks {
			dup = dup || x == k
		}
		if !dup {
			ks = append(ks, k)
		}
	}
	g.Kinds = ks
	return g
}

func (g *OpGen) Calm() *OpGen {
	g.NearMiss, g.TestMismatch = 3, 6
	return g
}

// spell possibly re-spells the last token of an existing array element
// negatively (valid when Neg is on, a near-miss when off).
func (g *OpGen) spell(t *rapid.T, l Loc, forAdd bool) string {
	if l.Parent == nil || l.Parent.K != ref.KArr {
		return l.Ptr
	}
	if !g.Neg || !OneIn(t, 4, "negsp") {
		return l.Ptr
	}
	n := len(l.Parent.Arr)
	base := l.Ptr[:strings.LastIndex(l.Ptr, "/")]
	if forAdd {
		return fmt.Sprintf("%s/%d", base, l.Idx-n-1)
	}
	return fmt.Sprintf("%s/%d", base, l.Idx-n)
}

// Existing draws a pointer to an existing location ("" if there is none).
func (g *OpGen) Existing(t *rapid.T, cur *ref.V, label string) (string, bool) {
	ls := Locations(cur)
	if len(ls) == 0 {
		return "", false
	}
	l := ls[rapid.IntRange(0, len(ls)-1).Draw(t, label+"ex")]
	return g.spell(t, l, false), true
}

// AddTarget draws a location where add succeeds.
func (g *OpGen) AddTarget(t *rapid.T, cur *ref.V, label string) string {
	cs := Containers(cur)
	c := cs[rapid.IntRange(0, len(cs)-1).Draw(t, label+"ci")]
	if c.V.K == ref.KObj {
		// existing member (add-on-existing) or a new one
		if len(c.V.Keys) > 0 && OneIn(t, 4, label+"onex") {
			k := rapid.SampledFrom(c.V.Keys).Draw(t, label+"ek")
			if k != "" {
				return c.Ptr + "/" + ref.EncodeTok(k)
			}
		}
		return c.Ptr + "/" + ref.EncodeTok(rapid.SampledFrom(g.Cfg.Keys).Draw(t, label+"nk"))
	}
	n := len(c.V.Arr)
	switch rapid.IntRange(0, 3).Draw(t, label+"am") {
	case 0:
		return c.Ptr + "/-"
	case 1:
		if g.Neg {
			return fmt.Sprintf("%s/%d", c.Ptr, -1-rapid.IntRange(0, n).Draw(t, label+"ni"))
		}
	}
	return fmt.Sprintf("%s/%d", c.Ptr, rapid.IntRange(0, n).Draw(t, label+"ai"))
}

// Miss draws a near-miss pointer of one of the kinds the properties list.
func (g *OpGen) Miss(t *rapid.T, cur *ref.V, label string) string {
	cs := Containers(cur)
	ls := Locations(cur)
	kind := rapid.IntRange(0, 9).Draw(t, label+"mk")
	if g.MissKinds != nil {
		kind = rapid.SampledFrom(g.MissKinds).Draw(t, label+"mk")
	}
	c := cs[rapid.IntRange(0, len(cs)-1).Draw(t, label+"mc")]
	switch kind {
	case 0, 1: // absent member / index just outside
		if c.V.K == ref.KObj {
			return c.Ptr + "/" + ref.EncodeTok(rapid.SampledFrom(g.Cfg.Keys).Draw(t, label+"mk2"))
		}
		n := len(c.V.Arr)
		return fmt.Sprintf("%s/%d", c.Ptr, n+rapid.IntRange(0, 2).Draw(t, label+"off"))
	case 2: // "-"
		return c.Ptr + "/-"
	case 3, 4: // negative spellings around -len
		n := 0
		if c.V.K == ref.KArr {
			n = len(c.V.Arr)
		}
		return fmt.Sprintf("%s/%d", c.Ptr, -n-1+rapid.IntRange(-1, 1).Draw(t, label+"noff"))
	case 5: // one level too deep: below a scalar or null
		if len(ls) > 0 {
			l := ls[rapid.IntRange(0, len(ls)-1).Draw(t, label+"dl")]
			return l.Ptr + "/" + ref.EncodeTok(rapid.SampledFrom(append([]string{"0"}, g.Cfg.Keys...)).Draw(t, label+"dk"))
		}
	case 6: // below an absent ancestor
		return c.Ptr + "/zz/" + ref.EncodeTok(rapid.SampledFrom(g.Cfg.Keys).Draw(t, label+"ak"))
	case 7: // non-numeric token on an array / numeric-looking on an object
		if c.V.K == ref.KArr {
			return c.Ptr + "/" + rapid.SampledFrom([]string{"x", "1x", "a", "é"}).Draw(t, label+"nn")
		}
		return c.Ptr + "/" + rapid.SampledFrom([]string{"0", "1", "-1", "-"}).Draw(t, label+"on")
	case 8: // pointer without leading slash
		return rapid.SampledFrom([]string{"a", "0", "b"}).Draw(t, label+"ns")
	}
	// far outside
	if c.V.K == ref.KArr {
		return fmt.Sprintf("%s/%d", c.Ptr, rapid.SampledFrom([]int{7, 99, -9, 1000000}).Draw(t, label+"far"))
	}
	return c.Ptr + "/nope"
}

func (g *OpGen) miss(t *rapid.T, label string) bool {
	return Percent(t, g.NearMiss, label+"miss?")
}

// PathFor draws a path for an operation that needs an existing target
// (forAdd=false) or an insertion point (forAdd=true).
func (g *OpGen) PathFor(t *rapid.T, cur *ref.V, label string, forAdd bool) string {
	return g.negInner(t, cur, g.pathFor(t, cur, label, forAdd), label)
}

func (g *OpGen) pathFor(t *rapid.T, cur *ref.V, label string, forAdd bool) string {
	if g.miss(t, label) {
		return g.Miss(t, cur, label)
	}
	if forAdd {
		return g.AddTarget(t, cur, label)
	}
	if p, ok := g.Existing(t, cur, label); ok {
		return p
	}
	return g.Miss(t, cur, label)
}

// negInner re-spells, one time in eight, one NON-final array index of the
// pointer as the equivalent negative index (i - len). With negative indices on
// this is another spelling of the same location; with them off it is a
// near-miss of its own kind: a negative index on the way, not at the end.
func (g *OpGen) negInner(t *rapid.T, cur *ref.V, path, label string) string {
	if g.NoNegInner || !strings.HasPrefix(path, "/") || !OneIn(t, 8, label+"neginner") {
		return path
	}
	toks := strings.Split(path[1:], "/")
	v := cur
	var cands []int
	for i, tk := range toks[:len(toks)-1] {
		if v == nil {
			break
		}
		switch v.K {
		case ref.KArr:
			n, neg, ok := ref.ParseIdx(tk)
			if !ok || neg || n >= len(v.Arr) {
				v = nil
				continue
			}
			cands = append(cands, i)
			v = v.Arr[n]
		case ref.KObj:
			nv, ok := v.Get(ref.DecodeTok(tk))
			if !ok {
				v = nil
				continue
			}
			v = nv
		default:
			v = nil
		}
	}
	if len(cands) == 0 {
		return path
	}
	// recompute the array length at the chosen position
	pick := cands[Uniform(t, 0, len(cands)-1, label+"negat")]
	v = cur
	for i, tk := range toks[:pick] {
		_ = i
		if v.K == ref.KArr {
			n, _, _ := ref.ParseIdx(tk)
			v = v.Arr[n]
		} else {
			v, _ = v.Get(ref.DecodeTok(tk))
		}
	}
	n, _, _ := ref.ParseIdx(toks[pick])
	toks[pick] = fmt.Sprint(n - len(v.Arr))
	return "/" + strings.Join(toks, "/")
}

// TestValue draws the value of a test against the current document: the
// current value three times out of four.
func (g *OpGen) TestValue(t *rapid.T, cur *ref.V, path, label string) *ref.V {
	v, r := ref.Lookup(cur, path, ref.Opts{Neg: g.Neg})
	if r.Cause == ref.CAbsentMember {
		v, r = ref.Null(), ref.Result{}
	}
	if r.Cause == ref.COK && !Percent(t, g.TestMismatch, label+"mismatch") {
		return v.Clone()
	}
	if g.Orig != nil && rapid.Bool().Draw(t, label+"stale") {
		if ov, or := ref.Lookup(g.Orig, path, ref.Opts{Neg: g.Neg}); or.Cause == ref.COK && ov.IsContainer() {
			return ov.Clone() // what was there before the earlier operations
		}
	}
	if r.Cause == ref.COK && v.IsContainer() && rapid.Bool().Draw(t, label+"near") {
		return g.Cfg.Mutate(t, v, 1)
	}
	return g.Cfg.Value(g.ValueDepth).Draw(t, label+"val")
}

// Next draws one operation against cur.
func (g *OpGen) Next(t *rapid.T, cur *ref.V, i int) ref.Op {
	l := fmt.Sprintf("op%d.", i)
	kind := rapid.SampledFrom(g.Kinds).Draw(t, l+"kind")
	if kind != "add" && len(Locations(cur)) == 0 && !OneIn(t, 10, l+"emptydoc") {
		// nothing to address yet: grow the document instead
		for _, k := range g.Kinds {
			if k == "add" {
				kind = "add"
			}
		}
	}
	op := ref.Op{Op: kind}
	val := func() *ref.V { return g.Cfg.Value(g.ValueDepth).Draw(t, l+"val") }
	switch kind {
	case "add":
		if !g.NoRootOps && !g.Legacy && OneIn(t, 25, l+"root") {
			op.Path = ""
			op.Value = g.Cfg.Root().Draw(t, l+"rootval")
			if OneIn(t, 6, l+"rootscalar") {
				op.Value = g.Cfg.Scalar().Draw(t, l+"rsv")
			}
		} else {
			op.Path = g.PathFor(t, cur, l+"p.", true)
			op.Value = val()
		}
	case "replace":
		if !g.NoRootOps && OneIn(t, 25, l+"root") {
			op.Path = ""
			op.Value = g.Cfg.Root().Draw(t, l+"rootval")
		} else {
			op.Path = g.PathFor(t, cur, l+"p.", false)
			op.Value = val()
		}
	case "remove":
		op.Path = g.PathFor(t, cur, l+"p.", false)
	case "move":
		op.From = g.PathFor(t, cur, l+"f.", false)
		if OneIn(t, 30, l+"fromroot") {
			op.From = ""
		}
		op.Path = g.PathFor(t, cur, l+"p.", true)
	case "copy":
		if !g.NoRootOps && !g.Legacy && OneIn(t, 12, l+"fromroot") {
			op.From = ""
		} else {
			op.From = g.PathFor(t, cur, l+"f.", false)
		}
		op.Path = g.PathFor(t, cur, l+"p.", true)
	case "test":
		if !g.NoRootOps && OneIn(t, 12, l+"root") {
			op.Path = ""
		} else if OneIn(t, 10, l+"absent") {
			// absent member: compares as null
			op.Path = g.AddTarget(t, cur, l+"ap.")
		} else {
			op.Path = g.PathFor(t, cur, l+"p.", false)
		}
		op.Value = g.TestValue(t, cur, op.Path, l)
	}
	return op
}

// Seq draws a sequence of up to maxOps operations, stepping the model after
// each one. After the first failing (or out-of-domain) operation up to `tail`
// further operations are appended against the last good state.
func (g *OpGen) Seq(t *rapid.T, doc *ref.V, o ref.Opts, minOps, maxOps, tail int) []ref.Op {
	n := Uniform(t, minOps, maxOps, "nops")
	st := &ref.State{Root: doc.Clone()}
	if g.Orig == nil {
		g.Orig = doc.Clone()
	}
	var ops []ref.Op
	failed := false
	for i := 0; i < n; i++ {
		op := g.Next(t, st.Root, i)
		if len(ops) > 0 && !failed && OneIn(t, 12, "again") {
			// an earlier operation once more, verbatim (a test that passed before may fail now, a
			// copy or add repeats): anything remembered about an operation by its text is stale
			op = ops[Uniform(t, 0, len(ops)-1, "againi")]
			op.Value = op.Value.Clone()
		}
		ops = append(ops, op)
		if failed {
			tail--
			if tail <= 0 {
				break
			}
			continue
		}
		trial := &ref.State{Root: st.Root.Clone(), Lo: st.Lo, Hi: st.Hi}
		if r := ref.Step(trial, op, o); r.Cause != ref.COK {
			failed = true
			if tail <= 0 {
				break
			}
			continue
		}
		st = trial
	}
	return ops
}

// Neighbour returns a number literal close to lit: its last mantissa digit
// bumped, or a difference far below float64 resolution appended - the pairs
// that a comparison through float64 (or with a tolerance) cannot tell apart.
func Neighbour(t *rapid.T, lit string, label string) string {
	mant, exp := lit, ""
	if i := strings.IndexAny(lit, "eE"); i >= 0 {
		mant, exp = lit[:i], lit[i:]
	}
	switch Uniform(t, 0, 2, label) {
	case 0: // bump the last digit
		b := []byte(mant)
		for i := len(b) - 1; i >= 0; i-- {
			if b[i] >= '0' && b[i] <= '9' {
				if b[i] == '9' {
					b[i] = '8'
				} else {
					b[i]++
				}
				break
			}
		}
		return string(b) + exp
	case 1: // a difference in the 20th decimal place
		if strings.Contains(mant, ".") {
			return mant + "00000000000000000001" + exp
		}
		return mant + ".00000000000000000001" + exp
	default: // for integers: a long literal differing in the last place
		if !strings.Contains(mant, ".") && exp == "" && mant != "0" && mant != "-0" {
			return mant + "0000000000000001"
		}
		return mant + exp
	}
}

// Bulk draws a wide object (34-90 members, one time in four 130-300, at the root
// or one level down; one member is itself an object that the edits reach into) and
// a long patch that takes most of its members away again (removes, a few moves
// to new names, a few adds), plus the merge patch that does the same with
// nulls. Thresholds of the kind "shrink the key list when it is a quarter
// full" are crossed only by such bulk edits of one object in one call.
func Bulk(t *rapid.T) (doc *ref.V, ops []ref.Op, merge *ref.V) {
	n := Uniform(t, 34, 90, "bulkn")
	if OneIn(t, 4, "bulkbig") {
		n = Uniform(t, 130, 300, "bulknbig")
	}
	wide := ref.Obj()
	for i := 0; i < n; i++ {
		if i == n/2 {
			// an object-valued member that the edits merge into rather than replace
			wide.Set("keep", ref.ObjOf("a", ref.Num("1"), "b", ref.Num("2"), "in", ref.ObjOf("x", ref.Null())))
		}
		wide.Set(fmt.Sprintf("k%02d", i), ref.Num(fmt.Sprint(i)))
	}
	pre := ""
	doc = wide
	if rapid.Bool().Draw(t, "bulknested") {
		doc = ref.ObjOf("head", ref.Num("1.0"), "w", wide, "tail", ref.Str("t"))
		pre = "/w"
	}
	k := Uniform(t, n/2, n-1, "bulkk")
	var names []string
	for _, name := range wide.Keys {
		if name != "keep" {
			names = append(names, name)
		}
	}
	order := rapid.Permutation(names).Draw(t, "bulkorder")[:k]
	merge = ref.Obj()
	mw := merge
	if pre != "" {
		mw = ref.Obj()
		merge.Set("w", mw)
	}
	for i, name := range order {
		switch {
		case i%11 == 5:
			ops = append(ops, ref.Op{Op: "move", From: pre + "/" + name, Path: pre + "/moved" + name})
		case i%13 == 7:
			ops = append(ops, ref.Op{Op: "add", Path: pre + "/new" + name, Value: ref.Str("n")}, ref.Op{Op: "remove", Path: pre + "/" + name})
		default:
			ops = append(ops, ref.Op{Op: "remove", Path: pre + "/" + name})
		}
		mw.Set(name, ref.Null())
	}
	mw.Set("added", ref.Bool(true))
	mw.Set("keep", ref.ObjOf("b", ref.Num("3"), "in", ref.ObjOf("y", ref.Num("4"))))
	ops = append(ops, ref.Op{Op: "replace", Path: pre + "/keep/b", Value: ref.Num("3")}, ref.Op{Op: "add", Path: pre + "/keep/in/y", Value: ref.Num("4")})
	return doc, ops, merge
}

// ManyOps draws a small document and a patch of several hundred to several
// thousand operations, every one applicable (adds, copies, tests, removes in a
// fixed cycle; one object keeps growing). A cap on the number of operations,
// or per-operation state that is not reset, shows only on such patches.
func ManyOps(t *rapid.T) (*ref.V, []ref.Op) {
	n := rapid.SampledFrom([]int{300, 1100, 4200}).Draw(t, "manyn")
	doc := ref.ObjOf("a", ref.Arr(), "o", ref.Obj(), "keep", ref.Num("1.0"))
	var ops []ref.Op
	for i := 0; len(ops) < n; i++ {
		v := ref.Num(fmt.Sprint(i))
		ops = append(ops,
			ref.Op{Op: "add", Path: "/a/-", Value: v},
			ref.Op{Op: "add", Path: fmt.Sprintf("/o/k%d", i), Value: ref.Str("s")},
			ref.Op{Op: "copy", From: "/a/0", Path: "/o/c"},
			ref.Op{Op: "test", Path: "/o/c", Value: v.Clone()},
			ref.Op{Op: "remove", Path: "/a/0"})
		if i%7 == 3 {
			ops = append(ops, ref.Op{Op: "move", From: fmt.Sprintf("/o/k%d", i-1), Path: "/last"})
		}
	}
	return doc, ops
}

// Alias draws a sequence built around one duplication: (optionally) an
// operation that walks into a nested container S, then a copy or move of S to
// a new place D, then 1-4 edits two or more levels below S or D, then tests of
// both. It is the history on which a duplicate that shares structure with its
// source shows: an edit deep in one side appears on the other. Every
// operation applies to the state the earlier ones leave (tracked with the
// reference evaluator); o must not carry EnsurePathExistsOnAdd.
func (g *OpGen) Alias(t *rapid.T, doc *ref.V, o ref.Opts) []ref.Op {
	st := &ref.State{Root: doc.Clone()}
	var ops []ref.Op
	do := func(op ref.Op) bool {
		trial := &ref.State{Root: st.Root.Clone(), Lo: st.Lo, Hi: st.Hi}
		if r := ref.Step(trial, op, o); r.Cause != ref.COK {
			return false
		}
		st = trial
		ops = append(ops, op)
		return true
	}
	deepBelow := func(root *ref.V, pre string) []Loc { // locations at least two levels below pre
		var out []Loc
		for _, l := range Locations(root) {
			if strings.HasPrefix(l.Ptr, pre+"/") && strings.Count(l.Ptr[len(pre):], "/") >= 2 {
				out = append(out, l)
			}
		}
		return out
	}
	// a source with nested content
	var srcs []Loc
	for _, l := range Locations(st.Root) {
		if l.V.IsContainer() && len(deepBelow(st.Root, l.Ptr)) > 0 {
			srcs = append(srcs, l)
		}
	}
	src := ""
	if len(srcs) == 0 || OneIn(t, 4, "al.fresh") {
		v := ref.ObjOf("b", ref.ObjOf("x", ref.Num("1"), "y", ref.Arr(ref.Num("1"), ref.ObjOf("z", ref.Num("2")))), "c", ref.Arr(ref.Arr(ref.Num("1"), ref.Num("2")), ref.Arr(ref.Num("3"))))
		switch st.Root.K {
		case ref.KObj:
			src = "/al"
		case ref.KArr:
			src = "/0"
		default:
			return nil
		}
		if !do(ref.Op{Op: "add", Path: src, Value: v}) {
			return nil
		}
	} else {
		src = rapid.SampledFrom(srcs).Draw(t, "al.src").Ptr
	}
	// walk into the source first (so that an implementation has it decoded)
	if !OneIn(t, 3, "al.notouch") {
		ls := deepBelow(st.Root, src)
		l := ls[Uniform(t, 0, len(ls)-1, "al.touch")]
		if rapid.Bool().Draw(t, "al.touchtest") {
			do(ref.Op{Op: "test", Path: l.Ptr, Value: l.V.Clone()})
		} else {
			do(ref.Op{Op: "replace", Path: l.Ptr, Value: g.Cfg.Scalar().Draw(t, "al.tv")})
		}
	}
	// duplicate (or move) it
	dst := ""
	switch st.Root.K {
	case ref.KObj:
		dst = "/dup"
	case ref.KArr:
		dst = "/-"
	}
	kind := "copy"
	if OneIn(t, 5, "al.move") {
		kind = "move"
	}
	if !do(ref.Op{Op: kind, From: src, Path: dst}) {
		return ops
	}
	if dst == "/-" {
		dst = fmt.Sprintf("/%d", len(st.Root.Arr)-1)
	}
	if kind == "move" {
		// a second duplicate of what was moved, so that two places hold the value again
		if st.Root.K == ref.KObj {
			do(ref.Op{Op: "copy", From: dst, Path: "/dup2"})
			src = "/dup2"
		} else {
			do(ref.Op{Op: "copy", From: dst, Path: "/-"})
			src = fmt.Sprintf("/%d", len(st.Root.Arr)-1)
		}
	}
	// edits deep inside either side
	n := Uniform(t, 1, 4, "al.nedits")
	for i := 0; i < n; i++ {
		side := src
		if rapid.Bool().Draw(t, "al.side") {
			side = dst
		}
		ls := deepBelow(st.Root, side)
		if len(ls) == 0 {
			break
		}
		l := ls[Uniform(t, 0, len(ls)-1, "al.el")]
		switch Uniform(t, 0, 3, "al.ek") {
		case 0:
			do(ref.Op{Op: "remove", Path: l.Ptr})
		case 1:
			do(ref.Op{Op: "replace", Path: l.Ptr, Value: g.Cfg.Value(1).Draw(t, "al.rv")})
		case 2:
			if l.V.K == ref.KObj {
				do(ref.Op{Op: "add", Path: l.Ptr + "/" + ref.EncodeTok(rapid.SampledFrom(g.Cfg.Keys).Draw(t, "al.ak")), Value: g.Cfg.Scalar().Draw(t, "al.av")})
			} else if l.V.K == ref.KArr {
				do(ref.Op{Op: "add", Path: l.Ptr + "/-", Value: g.Cfg.Scalar().Draw(t, "al.av")})
			} else {
				do(ref.Op{Op: "add", Path: l.Ptr, Value: g.Cfg.Scalar().Draw(t, "al.av")})
			}
		default:
			ls2 := deepBelow(st.Root, side)
			m := ls2[Uniform(t, 0, len(ls2)-1, "al.ml")]
			do(ref.Op{Op: "move", From: l.Ptr, Path: m.Ptr})
		}
	}
	// both sides as they must be now
	for _, p := range []string{src, dst} {
		if v, r := ref.Lookup(st.Root, p, o); r.Cause == ref.COK && rapid.Bool().Draw(t, "al.final") {
			do(ref.Op{Op: "test", Path: p, Value: v.Clone()})
		}
	}
	return ops
}
