package gen

import (
	"fmt"
	"strings"

	"github.com/evanphx/json-patch/v5/xverif/ref"
	"pgregory.net/rapid"
)

// Alphabet is the JSON structural/literal alphabet plus representative other bytes.
var Alphabet = []byte("{}[],:\"\\-+.01eEtrufalsn \n/\x00\x80b")

// HostileConsts are texts that broke (or nearly broke) the library.
var HostileConsts = []string{
	"null", "[null]", `{"":null}`, "[[null]]", "1", `"s"`, " [1]", "\r\n[1]", `{"a":{"a":null}}`, "", " ", "[", "{", "tru",
	`{"a":1,"a":2}`, `{"a":1}x`, "[A]", "[]", "{}", `[null,null]`, `{"a":[null,{"b":null}]}`, `"\ud800"`, "-", "0.", "1e", `"\u12"`,
	`[{"op":"test","path":"","value":null}]`, `[{"op":"replace","path":"","value":null},{"op":"add","path":"/0","value":1}]`,
	`[{"op":"add","path":"","value":null},{"op":"test","path":"","value":{}}]`, `[{"op":"copy","from":"","path":"/-"}]`,
}

// HostileToks are reference tokens for loose patch paths.
var HostileToks = []string{"", "a", "b", "0", "1", "-", "-1", "-2", "+1", "01", "-0", "~0", "~1", "~", "~2", "x/y", "9999", "10000", "99999999999999999999", "é", " ", "c", "d", "-9223372036854775808", "9223372036854775807", "-9223372036854775807", "-2147483649", "4294967296", "\u0663", "\uff11\uff12"}

// Deep returns a text nested n levels: kind 0 arrays, 1 objects, 2 alternating,
// 3 arrays with a sibling element at every level, 4 objects with a sibling member at every level.
func Deep(n int, kind int) string {
	var open, close strings.Builder
	for i := 0; i < n; i++ {
		switch {
		case kind == 3: // every level has a sibling in front: [0,[0,[0, ... ]]]
			open.WriteString("[0,")
			close.WriteString("]")
		case kind == 4: // every level has a sibling member: {"s":0,"a":{"s":0,"a": ... }}
			open.WriteString(`{"s":0,"a":`)
			close.WriteString("}")
		case kind == 0 || (kind == 2 && i%2 == 0):
			open.WriteString("[")
			close.WriteString("]")
		default:
			open.WriteString(`{"a":`)
			close.WriteString("}")
		}
	}
	inner := "1"
	c := close.String()
	// reverse the closers
	r := []byte(c)
	for i, j := 0, len(r)-1; i < j; i, j = i+1, j-1 {
		r[i], r[j] = r[j], r[i]
	}
	return open.String() + inner + string(r)
}

// Bytes draws a hostile byte string: arbitrary bytes, bytes over the JSON
// alphabet, a valid document with a truncation/flip/deletion/duplication, or
// one of the constants.
func Bytes() *rapid.Generator[[]byte] {
	return rapid.Custom(func(t *rapid.T) []byte {
		switch Uniform(t, 0, 9, "bk") {
		case 0:
			return rapid.SliceOfN(rapid.Byte(), 0, 24).Draw(t, "raw")
		case 1, 2:
			return rapid.SliceOfN(rapid.SampledFrom(Alphabet), 0, 16).Draw(t, "alpha")
		case 3:
			return []byte(rapid.SampledFrom(HostileConsts).Draw(t, "const"))
		case 4:
			if OneIn(t, 6, "deep") {
				// the library re-parses at every level (quadratic in depth): depth 10 000 costs
				// ~10 s per call, so the exact limit is exercised by c04's dedicated deep unit
				n := rapid.SampledFrom([]int{50, 300, 1200}).Draw(t, "depth")
				return []byte(Deep(n, Uniform(t, 0, 2, "dk")))
			}
			fallthrough
		case 5, 6, 7:
			return []byte(HostileValue(3).Draw(t, "v").Text(false))
		default:
			b := []byte(HostileValue(3).Draw(t, "mv").Text(false))
			if len(b) == 0 {
				return b
			}
			i := rapid.IntRange(0, len(b)-1).Draw(t, "i")
			switch Uniform(t, 0, 4, "m") {
			case 0:
				b = b[:i]
			case 1:
				b[i] = rapid.SampledFrom(Alphabet).Draw(t, "c")
			case 2:
				b = append(b[:i:i], b[i+1:]...)
			case 3:
				b = append(b[:i:i], append([]byte{b[i]}, b[i:]...)...)
			case 4:
				b = append(b, rapid.SampledFrom([]string{"x", "]", "}", ",", " 1", "\"", "\x00", " ", "\n"}).Draw(t, "tr")...)
			}
			return b
		}
	})
}

// HostileValue: values with many nulls, empty keys and duplicate keys.
func HostileValue(depth int) *rapid.Generator[*ref.V] {
	return rapid.Custom(func(t *rapid.T) *ref.V {
		if OneIn(t, 5, "hnull") {
			return ref.Null()
		}
		c := Default
		c.Keys = append(append([]string{}, c.Keys...), "", "", "a", "a")
		v := c.Value(depth).Draw(t, "v")
		if OneIn(t, 4, "dup") {
			v.Walk(func(x *ref.V) {
				if x.K == ref.KObj && len(x.Keys) > 0 {
					x.Keys = append(x.Keys, x.Keys[0])
					x.Vals = append(x.Vals, ref.Null())
				}
			})
		}
		if OneIn(t, 3, "nullify") {
			v.Walk(func(x *ref.V) {
				for i := range x.Arr {
					if i%2 == 0 {
						x.Arr[i] = ref.Null()
					}
				}
			})
		}
		return v
	})
}

// LoosePath draws a pointer from hostile tokens.
func LoosePath(t *rapid.T, l string) string {
	n := Uniform(t, 0, 4, l+"n")
	if n == 0 {
		return rapid.SampledFrom([]string{"", "", "", "a", "/", "//"}).Draw(t, l+"z")
	}
	var sb strings.Builder
	for i := 0; i < n; i++ {
		sb.WriteByte('/')
		sb.WriteString(rapid.SampledFrom(HostileToks).Draw(t, fmt.Sprintf("%st%d", l, i)))
	}
	return sb.String()
}

// LoosePatch draws a patch document that DecodePatch accepts, from a loose grammar.
func LoosePatch(t *rapid.T, cur *ref.V) *ref.V {
	n := Uniform(t, 0, 6, "nops")
	a := ref.Arr()
	g := NewOpGen(true)
	for i := 0; i < n; i++ {
		l := fmt.Sprintf("o%d.", i)
		o := ref.Obj()
		kind := rapid.SampledFrom([]string{"add", "remove", "replace", "move", "copy", "test"}).Draw(t, l+"k")
		path := func(lbl string) string {
			if cur != nil && cur.IsContainer() && rapid.Bool().Draw(t, lbl+"aware") {
				return g.PathFor(t, cur, lbl, rapid.Bool().Draw(t, lbl+"fa"))
			}
			return LoosePath(t, lbl)
		}
		o.Set("op", ref.Str(kind))
		o.Set("path", ref.Str(path(l+"p")))
		if kind == "move" || kind == "copy" {
			o.Set("from", ref.Str(path(l+"f")))
		}
		if kind == "add" || kind == "replace" || (kind == "test" && !OneIn(t, 5, l+"tv")) {
			o.Set("value", HostileValue(2).Draw(t, l+"v"))
		}
		a.Arr = append(a.Arr, o)
	}
	return a
}

// HostileRuns are byte sequences that are repeated inside string literals:
// malformed UTF-8 of every flavour (each malformed byte grows to the 3-byte
// U+FFFD when unquoted), escapes that expand or shrink, and plain filler.
var HostileRuns = []string{"\xff", "\x80", "\xc3", "\xe2\x80", "\xed\xa0\x80", "\xf4\x90\x80\x80", "\xf0\x9f", "a\xff", "\xc0\xaf",
	`\ud800`, `\udc00`, `😀`, `\u0000`, `\\`, `\"`, `\/`, `é`, "é", " ", "<", "😀"}

// PoisonStrings inserts a run of 1-64 repetitions of one hostile sequence
// into a string literal of text (a member name, a value, a pointer - whichever
// literal the draw picks). Texts without a string literal are returned as is.
func PoisonStrings(t *rapid.T, text []byte, label string) []byte {
	var opens []int // offsets just behind an opening quote
	in := false
	for i := 0; i < len(text); i++ {
		switch {
		case text[i] == '\\' && in:
			i++
		case text[i] == '"':
			in = !in
			if in {
				opens = append(opens, i+1)
			}
		}
	}
	if len(opens) == 0 {
		return text
	}
	at := opens[Uniform(t, 0, len(opens)-1, label+"lit")]
	run := rapid.SampledFrom(HostileRuns).Draw(t, label+"run")
	n := rapid.SampledFrom([]int{1, 2, 3, 4, 5, 6, 7, 8, 9, 12, 16, 21, 32, 33, 64}).Draw(t, label+"n")
	out := append([]byte{}, text[:at]...)
	for i := 0; i < n; i++ {
		out = append(out, run...)
	}
	return append(out, text[at:]...)
}

// BadLiterals are scalar tokens that are almost JSON.
var BadLiterals = []string{"-01", "01", "-00.5", "00", "1.", ".5", "-.5", "+1", "1e", "1e+", "-", "0x1", "1_000", "1e1.5", "Infinity", "NaN", "-0e", "0.e1",
	"True", "tru", "nul", "NULL", "truee", "'a'", "\"\\x41\"", "\"\\u12\"", "\"\\u00\x11\x12\"", "\"\\uD83D\\\"", "\"\x01\"", "\"\t\"", "\"a\nb\"", "\"\\'\"", "\"\\a\"", "\"abc", "undefined", ""}

// LexDamage replaces one scalar token of a JSON text (a member value or an
// array element; strings, numbers and literals alike) by a token that is
// almost JSON, or adds a trailing comma / trailing data / a byte-order mark.
// The result is ill-formed by construction in nearly all cases (the callers'
// oracles decide, not this function).
func LexDamage(t *rapid.T, text []byte, label string) []byte {
	// offsets where a value starts: after ':' '[' or ',' (outside strings), skipping whitespace
	type span struct{ s, e int }
	var vals []span
	in := false
	for i := 0; i < len(text); i++ {
		c := text[i]
		if in {
			if c == '\\' {
				i++
			} else if c == '"' {
				in = false
			}
			continue
		}
		if c == '"' {
			in = true
			continue
		}
		if c == ':' || c == '[' || c == ',' {
			j := i + 1
			for j < len(text) && (text[j] == ' ' || text[j] == '\t' || text[j] == '\n' || text[j] == '\r') {
				j++
			}
			if j >= len(text) || text[j] == '{' || text[j] == '[' || text[j] == ']' || text[j] == '}' {
				continue
			}
			k := j
			if text[k] == '"' {
				k++
				for k < len(text) && text[k] != '"' {
					if text[k] == '\\' {
						k++
					}
					k++
				}
				k++
				// an object member name is followed by ':' - leave names alone, they are not values
				m := k
				for m < len(text) && (text[m] == ' ' || text[m] == '\t' || text[m] == '\n' || text[m] == '\r') {
					m++
				}
				if m < len(text) && text[m] == ':' {
					continue
				}
			} else {
				for k < len(text) && text[k] != ',' && text[k] != ']' && text[k] != '}' && text[k] != ' ' && text[k] != '\n' && text[k] != '\t' && text[k] != '\r' {
					k++
				}
			}
			if k > len(text) {
				k = len(text)
			}
			vals = append(vals, span{j, k})
		}
	}
	mode := Uniform(t, 0, 9, label+"mode")
	if len(vals) == 0 && mode < 7 {
		mode = 7
	}
	switch {
	case mode < 7:
		v := vals[Uniform(t, 0, len(vals)-1, label+"at")]
		bad := rapid.SampledFrom(BadLiterals).Draw(t, label+"lit")
		return append(append(append([]byte{}, text[:v.s]...), bad...), text[v.e:]...)
	case mode == 7: // trailing comma before the last closer
		for i := len(text) - 1; i >= 0; i-- {
			if text[i] == ']' || text[i] == '}' {
				return append(append(append([]byte{}, text[:i]...), ','), text[i:]...)
			}
		}
		return append(append([]byte{}, text...), ',')
	case mode == 8: // trailing data
		return append(append([]byte{}, text...), rapid.SampledFrom([]string{" x", "]", "}", ",", "\x00", "[]", " null", "\v"}).Draw(t, label+"tr")...)
	default: // leading junk
		return append([]byte(rapid.SampledFrom([]string{"\ufeff", "\v", "\f", "\u00a0", "x", ")]}'\n", "//c\n"}).Draw(t, label+"lead")), text...)
	}
}
