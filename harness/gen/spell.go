package gen

import (
	"fmt"
	"strings"
	"unicode/utf16"

	"github.com/evanphx/json-patch/v5/xverif/ref"
	"pgregory.net/rapid"
)

// SpellCfg controls how a tree is re-serialised.
type SpellCfg struct {
	WS      bool // random insignificant whitespace
	Escapes bool // alternative escapes: \uXXXX, \/, surrogate pairs, \b \f
	Shuffle bool // permute object members
}

// Spell writes v with random insignificant whitespace and alternative string
// escapes (member order kept).
func Spell(t *rapid.T, v *ref.V, label string) string {
	return SpellWith(t, v, SpellCfg{WS: true, Escapes: true}, label)
}

func SpellWith(t *rapid.T, v *ref.V, c SpellCfg, label string) string {
	var sb strings.Builder
	sp := &speller{t: t, c: c, l: label, sb: &sb}
	sp.ws()
	sp.val(v)
	sp.ws()
	return sb.String()
}

type speller struct {
	t  *rapid.T
	c  SpellCfg
	l  string
	sb *strings.Builder
}

func (s *speller) ws() {
	if !s.c.WS {
		return
	}
	if !OneIn(s.t, 3, s.l+"ws") {
		return
	}
	n := rapid.IntRange(1, 3).Draw(s.t, s.l+"wsn")
	for i := 0; i < n; i++ {
		s.sb.WriteString(rapid.SampledFrom([]string{" ", "\n", "\t", "\r", "  "}).Draw(s.t, s.l+"wsc"))
	}
}

func (s *speller) str(x string) {
	s.sb.WriteByte('"')
	for _, r := range x {
		alt := s.c.Escapes && OneIn(s.t, 4, s.l+"esc")
		switch {
		case r == '"' || r == '\\':
			if alt {
				fmt.Fprintf(s.sb, `\u%04x`, r)
			} else {
				s.sb.WriteByte('\\')
				s.sb.WriteRune(r)
			}
		case r == '/' && alt:
			s.sb.WriteString(`\/`)
		case r == '\n' && !alt:
			s.sb.WriteString(`\n`)
		case r == '\t' && !alt:
			s.sb.WriteString(`\t`)
		case r == '\r' && !alt:
			s.sb.WriteString(`\r`)
		case r == '\b' && !alt:
			s.sb.WriteString(`\b`)
		case r == '\f' && !alt:
			s.sb.WriteString(`\f`)
		case r < 0x20:
			if OneIn(s.t, 2, s.l+"hexcase") {
				fmt.Fprintf(s.sb, `\u%04X`, r)
			} else {
				fmt.Fprintf(s.sb, `\u%04x`, r)
			}
		case alt && r >= 0x10000:
			r1, r2 := utf16.EncodeRune(r)
			fmt.Fprintf(s.sb, `\u%04x\u%04X`, r1, r2)
		case alt && r != 0xFFFD:
			fmt.Fprintf(s.sb, `\u%04x`, r)
		default:
			s.sb.WriteRune(r)
		}
	}
	s.sb.WriteByte('"')
}

func (s *speller) val(v *ref.V) {
	switch v.K {
	case ref.KNull:
		s.sb.WriteString("null")
	case ref.KBool:
		if v.B {
			s.sb.WriteString("true")
		} else {
			s.sb.WriteString("false")
		}
	case ref.KNum:
		s.sb.WriteString(v.Num)
	case ref.KStr:
		s.str(v.Str)
	case ref.KArr:
		s.sb.WriteByte('[')
		s.ws()
		for i, e := range v.Arr {
			if i > 0 {
				s.sb.WriteByte(',')
				s.ws()
			}
			s.val(e)
			s.ws()
		}
		s.sb.WriteByte(']')
	case ref.KObj:
		idx := make([]int, len(v.Keys))
		for i := range idx {
			idx[i] = i
		}
		if s.c.Shuffle && len(idx) > 1 {
			idx = rapid.Permutation(idx).Draw(s.t, s.l+"perm")
		}
		s.sb.WriteByte('{')
		s.ws()
		for n, i := range idx {
			if n > 0 {
				s.sb.WriteByte(',')
				s.ws()
			}
			s.str(v.Keys[i])
			s.ws()
			s.sb.WriteByte(':')
			s.ws()
			s.val(v.Vals[i])
			s.ws()
		}
		s.sb.WriteByte('}')
	}
}

// Texts writes a document and a patch (or any two trees) mostly in the
// encoder's own spelling and one time in four re-spelled: random insignificant
// whitespace and alternative escapes (in member names, strings and pointer
// members alike). The parsed values are the same either way.
func Texts(t *rapid.T, a, b *ref.V, esc bool, label string) (string, string) {
	if OneIn(t, 4, label+"respell") {
		return Spell(t, a, label+"a"), Spell(t, b, label+"b")
	}
	return a.Text(esc), b.Text(esc)
}
