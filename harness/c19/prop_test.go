// C19 — legacy root package: merge-patch functions obey the same laws.
package c19

import (
	"fmt"
	"strings"
	"testing"

	jl "github.com/evanphx/json-patch"
	"github.com/evanphx/json-patch/v5/xverif/ev"
	"github.com/evanphx/json-patch/v5/xverif/gen"
	"github.com/evanphx/json-patch/v5/xverif/laws"
	"github.com/evanphx/json-patch/v5/xverif/ref"
	"pgregory.net/rapid"
)

type Case struct {
	A string `json:"a"`
	B string `json:"b"`
	C string `json:"c,omitempty"`
}

// ---------- MergePatch ----------

func drawMerge(t *rapid.T) Case {
	c := gen.WithEmptyName
	var doc *ref.V
	if gen.OneIn(t, 4, "anyroot") {
		doc = c.Value(3).Draw(t, "docv")
	} else {
		doc = c.Object(3).Draw(t, "doc")
	}
	if doc.K == ref.KNull {
		doc = ref.Obj()
	}
	var patch *ref.V
	switch gen.Uniform(t, 0, 5, "pk") {
	case 0:
		patch = c.Array(3).Draw(t, "pa")
	case 1:
		patch = c.Object(3).Draw(t, "po")
	default:
		patch = c.Mutate(t, doc, 2)
		if patch.K == ref.KObj {
			for i, n := 0, gen.Uniform(t, 0, 2, "nn"); i < n; i++ {
				k := rapid.SampledFrom(c.Keys).Draw(t, "dk")
				if len(doc.Keys) > 0 && rapid.Bool().Draw(t, "exist") {
					k = rapid.SampledFrom(doc.Keys).Draw(t, "ek")
				}
				if rapid.Bool().Draw(t, "isnull") {
					patch.Set(k, ref.Null())
				} else {
					patch.Set(k, ref.Arr(ref.ObjOf("b", ref.Null(), "c", c.Scalar().Draw(t, "ns")), ref.Null()))
				}
			}
		}
	}
	if patch.K != ref.KObj && patch.K != ref.KArr {
		patch = ref.Arr(patch)
	}
	return Case{A: doc.Text(false), B: patch.Text(false)}
}

func checkMerge(c Case) ev.Verdict {
	doc, e1 := ref.Parse([]byte(c.A))
	patch, e2 := ref.Parse([]byte(c.B))
	if e1 != nil || e2 != nil || doc.K == ref.KNull || (patch.K != ref.KObj && patch.K != ref.KArr) || doc.HasDup() || patch.HasDup() {
		return ev.Excluded("not (non-null document, object or array patch) without duplicate names")
	}
	var out []byte
	var err error
	if p := ev.Safe(func() { out, err = jl.MergePatch([]byte(c.A), []byte(c.B)) }); p != nil {
		return ev.Verdict{Err: p}
	}
	want := ref.Merge(doc, patch)
	v := ev.Verdict{Classes: []string{"doc=" + doc.K.String(), "patch=" + patch.K.String()}}
	v.NonTrivial = patch.K == ref.KObj && doc.K == ref.KObj && len(patch.Keys) > 0 && func() bool {
		for _, k := range patch.Keys {
			if _, ok := doc.Get(k); ok {
				return true
			}
		}
		return false
	}()
	if err != nil {
		v.Err = fmt.Errorf("MergePatch failed: %v", err)
		return v
	}
	g, perr := ref.Parse(out)
	if perr != nil || !ref.Equal(g, want) {
		v.Err = fmt.Errorf("result differs from RFC 7396\n got:  %s\n want: %s", out, want)
	}
	return v
}

// ---------- CreateMergePatch ----------

// numbers spelled the way Go prints a float64
var floatCfg = func() gen.Cfg {
	c := gen.WithEmptyName
	c.Nums = []string{"0", "1", "-1", "2", "10", "1.5", "-3", "250", "0.1", "100", "9007199254740991", "-2.5", "1e+21", "1e-7", "123456789", "1700000000", "1700000001", "9007199254740990"}
	return c
}()

func noNullMember(v *ref.V) *ref.V {
	switch v.K {
	case ref.KObj:
		o := ref.Obj()
		for i, k := range v.Keys {
			if v.Vals[i].K == ref.KNull {
				o.Set(k, ref.Bool(false))
			} else {
				o.Set(k, noNullMember(v.Vals[i]))
			}
		}
		return o
	case ref.KArr:
		a := ref.Arr()
		for _, e := range v.Arr {
			a.Arr = append(a.Arr, noNullMember(e))
		}
		return a
	}
	return v
}

func drawCreate(t *rapid.T) Case {
	a := floatCfg.Object(3).Draw(t, "a")
	b := floatCfg.Mutate(t, a, 2)
	if b.K != ref.KObj {
		b = floatCfg.Object(3).Draw(t, "b")
	}
	return Case{A: a.Text(false), B: noNullMember(b).Text(false)}
}

func goFloatSpelled(v *ref.V) bool {
	ok := true
	v.Walk(func(x *ref.V) {
		if x.K == ref.KNum {
			found := false
			for _, n := range floatCfg.Nums {
				if n == x.Num {
					found = true
				}
			}
			ok = ok && found
		}
	})
	return ok
}

func checkCreate(c Case) ev.Verdict {
	a, e1 := ref.Parse([]byte(c.A))
	b, e2 := ref.Parse([]byte(c.B))
	if e1 != nil || e2 != nil || a.K != ref.KObj || b.K != ref.KObj || a.HasDup() || b.HasDup() {
		return ev.Excluded("not a pair of duplicate-free objects")
	}
	if !goFloatSpelled(a) || !goFloatSpelled(b) {
		return ev.Excluded("a number not spelled the way Go prints a float64")
	}
	if b.HasNullMember() {
		return ev.Excluded("B has a null-valued member", "b-has-null-member")
	}
	var out []byte
	var err error
	if p := ev.Safe(func() { out, err = jl.CreateMergePatch([]byte(c.A), []byte(c.B)) }); p != nil {
		return ev.Verdict{Err: p}
	}
	v := ev.Verdict{NonTrivial: !ref.Equal(a, b)}
	if err != nil {
		v.Err = fmt.Errorf("CreateMergePatch failed: %v", err)
		return v
	}
	p, perr := ref.Parse(out)
	if perr != nil {
		v.Err = fmt.Errorf("patch not well-formed: %q", out)
		return v
	}
	if err := laws.ObjectLaws(a, b, p, []byte(c.A), out, jl.MergePatch); err != nil {
		v.Err = err
	}
	return v
}

// ---------- MergeMergePatches ----------

func sprinkle(t *rapid.T, v *ref.V, label string) {
	if v.K != ref.KObj {
		return
	}
	for i := range v.Vals {
		if gen.OneIn(t, 5, label+"n") {
			v.Vals[i] = ref.Null()
		} else {
			sprinkle(t, v.Vals[i], label)
		}
	}
}

func drawCompose(t *rapid.T) Case {
	c := gen.WithEmptyName
	d := c.Value(3).Draw(t, "d")
	if d.K == ref.KNull {
		d = ref.Obj()
	}
	p1 := c.Mutate(t, d, 2)
	if p1.K != ref.KObj || gen.OneIn(t, 3, "indep1") {
		p1 = c.Object(3).Draw(t, "p1")
	}
	sprinkle(t, p1, "s1")
	p2 := c.Mutate(t, p1, 2)
	if p2.K != ref.KObj || gen.OneIn(t, 6, "indep2") {
		p2 = c.Object(3).Draw(t, "p2")
	}
	sprinkle(t, p2, "s2")
	return Case{A: p1.Text(false), B: p2.Text(false), C: d.Text(false)}
}

func checkCompose(c Case) ev.Verdict {
	p1, e1 := ref.Parse([]byte(c.A))
	p2, e2 := ref.Parse([]byte(c.B))
	d, e3 := ref.Parse([]byte(c.C))
	if e1 != nil || e2 != nil || e3 != nil || p1.K != ref.KObj || p2.K != ref.KObj || d.K == ref.KNull || p1.HasDup() || p2.HasDup() || d.HasDup() {
		return ev.Excluded("not (object, object, non-null document) without duplicate names")
	}
	if !laws.Compat(p1, p2) {
		return ev.Excluded("incompatible pair", "incompatible")
	}
	var out []byte
	var err error
	if p := ev.Safe(func() { out, err = jl.MergeMergePatches([]byte(c.A), []byte(c.B)) }); p != nil {
		return ev.Verdict{Err: p}
	}
	v := ev.Verdict{NonTrivial: laws.SharedNull(p1, p2, 0)}
	if err != nil {
		v.Err = fmt.Errorf("MergeMergePatches failed: %v", err)
		return v
	}
	comb, perr := ref.Parse(out)
	if perr != nil {
		v.Err = fmt.Errorf("combined patch not well-formed: %q", out)
		return v
	}
	seq, one := ref.Merge(ref.Merge(d, p1), p2), ref.Merge(d, comb)
	if !ref.Equal(seq, one) {
		v.Err = fmt.Errorf("applying the combined patch differs from applying P1 then P2\n combined: %s\n P1;P2:    %s\n combined applied: %s", out, seq, one)
	}
	return v
}

// ---------- Equal ----------

var plainStrCfg = func() gen.Cfg {
	c := gen.WithEmptyName
	c.Strs = []string{"", "a", "b", "x y", "é", "😀", " ", "hello", "/", "~", "<&>", "a&b"}
	c.Keys = []string{"a", "b", "c", "d", "0", "1", "-1", "x/y", "m~n", "é", "k k", "-", "<&>"}
	return c
}()

func drawEqual(t *rapid.T) Case {
	a := plainStrCfg.Root().Draw(t, "a")
	var b *ref.V
	switch gen.Uniform(t, 0, 2, "k") {
	case 0:
		b = a.Clone()
	case 1:
		b = plainStrCfg.Mutate(t, a, 2)
		if !b.IsContainer() {
			b = a.Clone()
		}
	default:
		b = plainStrCfg.Root().Draw(t, "b")
	}
	sp := gen.SpellCfg{WS: true, Shuffle: true}
	return Case{A: gen.SpellWith(t, a, sp, "sa"), B: gen.SpellWith(t, b, sp, "sb")}
}

func checkEqual(c Case) ev.Verdict {
	a, e1 := ref.Parse([]byte(c.A))
	b, e2 := ref.Parse([]byte(c.B))
	if e1 != nil || e2 != nil || !a.IsContainer() || !b.IsContainer() || a.HasDup() || b.HasDup() {
		return ev.Excluded("not two object/array-rooted duplicate-free texts")
	}
	if strings.Contains(c.A, `\`) || strings.Contains(c.B, `\`) {
		return ev.Excluded("text contains an escape sequence")
	}
	if ref.NumSpellingIssue(a, b) {
		return ev.Excluded("numbers equal in value but spelled differently")
	}
	var got bool
	if p := ev.Safe(func() { got = jl.Equal([]byte(c.A), []byte(c.B)) }); p != nil {
		return ev.Verdict{Err: p}
	}
	want := ref.Equal(a, b)
	v := ev.Verdict{Classes: []string{fmt.Sprintf("equal=%v", want)}, NonTrivial: !want || c.A != c.B}
	if got != want {
		v.Err = fmt.Errorf("Equal = %v, structural equality = %v", got, want)
	}
	return v
}

var (
	mergeUnit = ev.Unit[Case]{Name: "legacy-merge", Draw: drawMerge, Check: checkMerge,
		Rule: "legacy MergePatch: non-null document x object or array patch (mutations of the document, deletions, objects with null members nested in arrays); oracle: RFC 7396 reference; non-trivial = object patch sharing a member name with an object document"}
	createUnit = ev.Unit[Case]{Name: "legacy-create", Draw: drawCreate, Check: checkCreate,
		Rule: "legacy CreateMergePatch: object pairs (B a mutation of A without null members) whose numbers are spelled as Go prints a float64; oracle: the C03 laws (round trip through reference and legacy MergePatch, {} iff equal, minimality walk); non-trivial = A != B"}
	composeUnit = ev.Unit[Case]{Name: "legacy-compose", Draw: drawCompose, Check: checkCompose,
		Rule: "legacy MergeMergePatches: (P1, P2, D) as C07 with nulls at every depth; incompatible pairs excluded; oracle: composition law through the reference merge; non-trivial = shared nested path where one side holds null"}
	equalUnit = ev.Unit[Case]{Name: "legacy-equal", Draw: drawEqual, Check: checkEqual,
		Rule: "legacy Equal: object/array-rooted pairs (clone, mutation, independent) re-serialised with shuffled members and random whitespace but no escape sequences; oracle: structural equality; non-trivial = unequal, or equal but not byte-identical"}
)

func TestPropMerge(t *testing.T)   { ev.RunProp(t, "C19", mergeUnit) }
func TestPropCreate(t *testing.T)  { ev.RunProp(t, "C19", createUnit) }
func TestPropCompose(t *testing.T) { ev.RunProp(t, "C19", composeUnit) }
func TestPropEqual(t *testing.T)   { ev.RunProp(t, "C19", equalUnit) }
func TestReplay(t *testing.T) {
	ev.Replay(t, map[string]ev.Replayer{mergeUnit.Name: mergeUnit.Replayer(), createUnit.Name: createUnit.Replayer(), composeUnit.Name: composeUnit.Replayer(), equalUnit.Name: equalUnit.Replayer()})
}
