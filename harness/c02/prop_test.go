// C02 — RFC 7396 merge patch application computes the RFC result (v5).
package c02

import (
	"fmt"
	"testing"

	jp "github.com/evanphx/json-patch/v5"
	"github.com/evanphx/json-patch/v5/xverif/ev"
	"github.com/evanphx/json-patch/v5/xverif/gen"
	"github.com/evanphx/json-patch/v5/xverif/ref"
	"pgregory.net/rapid"
)

type Case struct {
	Doc   string `json:"doc"`
	Patch string `json:"patch"`
}

// withArrayNulls: values in which objects with null members sit inside arrays.
func nullyValue(t *rapid.T, depth int) *ref.V {
	c := gen.WithEmptyName
	switch gen.Uniform(t, 0, 3, "nk") {
	case 0:
		o := c.Object(depth).Draw(t, "no")
		o.Set(rapid.SampledFrom(c.Keys).Draw(t, "nk1"), ref.Null())
		return ref.Arr(o, ref.Null(), c.Value(1).Draw(t, "nv"))
	case 1:
		o := ref.Obj()
		o.Set(rapid.SampledFrom(c.Keys).Draw(t, "nk2"), ref.Arr(ref.ObjOf("b", ref.Null(), "c", c.Scalar().Draw(t, "ns"))))
		o.Set(rapid.SampledFrom(c.Keys).Draw(t, "nk3"), ref.Null())
		return o
	}
	return c.Value(depth).Draw(t, "nvv")
}

func draw(t *rapid.T) Case {
	c := gen.WithEmptyName
	if gen.OneIn(t, 150, "bulk") {
		d, _, m := gen.Bulk(t)
		return Case{Doc: d.Text(false), Patch: m.Text(false)}
	}
	var doc *ref.V
	if gen.OneIn(t, 4, "anyroot") {
		doc = c.Value(3).Draw(t, "docv")
	} else {
		doc = c.Object(3).Draw(t, "doc")
	}
	if doc.K == ref.KNull {
		doc = ref.Obj()
	}
	var patch *ref.V
	switch gen.Uniform(t, 0, 5, "pk") {
	case 0:
		patch = c.Value(3).Draw(t, "pv") // any root type
	case 1:
		patch = c.Object(3).Draw(t, "po")
	default:
		patch = c.Mutate(t, doc, 2)
		if patch.K == ref.KObj {
			// sprinkle deletions and nully values
			n := gen.Uniform(t, 0, 2, "nn")
			for i := 0; i < n; i++ {
				k := rapid.SampledFrom(c.Keys).Draw(t, "dk")
				if len(doc.Keys) > 0 && rapid.Bool().Draw(t, "exist") {
					k = rapid.SampledFrom(doc.Keys).Draw(t, "ek")
				}
				if rapid.Bool().Draw(t, "isnull") {
					patch.Set(k, ref.Null())
				} else {
					patch.Set(k, nullyValue(t, 2))
				}
			}
		}
	}
	if gen.OneIn(t, 4, "spell") {
		return Case{Doc: gen.Spell(t, doc, "sd"), Patch: gen.Spell(t, patch, "sp")}
	}
	return Case{Doc: doc.Text(false), Patch: patch.Text(false)}
}

// sharedDepth: deepest level at which document and patch are both objects
// sharing a member name (0 = roots share nothing).
func sharedDepth(d, p *ref.V) int {
	if d == nil || d.K != ref.KObj || p.K != ref.KObj {
		return 0
	}
	best := 0
	for i, k := range p.Keys {
		if dv, ok := d.Get(k); ok {
			if x := 1 + sharedDepth(dv, p.Vals[i]); x > best {
				best = x
			}
		}
	}
	return best
}

func nestedNull(p *ref.V, depth int) bool {
	switch p.K {
	case ref.KNull:
		return depth >= 2
	case ref.KObj:
		for _, v := range p.Vals {
			if nestedNull(v, depth+1) {
				return true
			}
		}
	case ref.KArr:
		for _, v := range p.Arr {
			if nestedNull(v, depth+1) {
				return true
			}
		}
	}
	return false
}

func check(c Case) ev.Verdict {
	doc, err1 := ref.Parse([]byte(c.Doc))
	patch, err2 := ref.Parse([]byte(c.Patch))
	if err1 != nil || err2 != nil {
		return ev.Excluded("not well-formed")
	}
	if doc.K == ref.KNull {
		return ev.Excluded("null document")
	}
	if doc.HasDup() || patch.HasDup() {
		return ev.Excluded("duplicate member names")
	}
	want := ref.Merge(doc, patch)
	var out []byte
	var err error
	if p := ev.Safe(func() { out, err = jp.MergePatch([]byte(c.Doc), []byte(c.Patch)) }); p != nil {
		return ev.Verdict{Err: p}
	}
	sd := sharedDepth(doc, patch)
	v := ev.Verdict{Classes: []string{"doc=" + doc.K.String(), "patch=" + patch.K.String(), fmt.Sprintf("shared-depth=%d", min(sd, 3))}}
	nn := patch.K == ref.KObj && nestedNull(patch, 0)
	if nn {
		v.Classes = append(v.Classes, "nested-null")
	}
	v.NonTrivial = patch.K == ref.KObj && (sd >= 2 || nn)
	if err != nil {
		v.Err = fmt.Errorf("MergePatch failed on well-formed input: %v", err)
		return v
	}
	g, perr := ref.Parse(out)
	if perr != nil {
		v.Err = fmt.Errorf("output not well-formed: %q", out)
		return v
	}
	if !ref.Equal(g, want) {
		v.Err = fmt.Errorf("result differs from RFC 7396 MergePatch(document, patch)\n got:  %s\n want: %s", out, want)
	}
	return v
}

var unit = ev.Unit[Case]{
	Name: "merge",
	Rule: "document (any non-null root, mostly objects, depth<=4) x patch of any root type: a mutation of the document (shared names so that recursion, deletion and type change at depth happen), an independent value, with null members sprinkled at every depth incl. inside objects nested in arrays; a quarter in arbitrary spelling; oracle: RFC 7396 section 2 algorithm on the independent tree, Equal with number literals; non-trivial = object patch that shares member names with the document two or more levels deep, or holds a null below the first level",
	Draw: draw, Check: check,
}

func TestProp(t *testing.T)   { ev.RunProp(t, "C02", unit) }
func TestReplay(t *testing.T) { ev.Replay(t, map[string]ev.Replayer{unit.Name: unit.Replayer()}) }
