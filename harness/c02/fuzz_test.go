package c02

import (
	"testing"

	"github.com/evanphx/json-patch/v5/xverif/ev"
)

// FuzzMerge: (document, merge patch) bytes against the RFC 7396 reference.
func FuzzMerge(f *testing.F) {
	for _, d := range []string{`{"a":{"b":1,"c":null},"d":[{"e":null}],"f":1.0}`, `[1,{"a":null}]`, `"s"`, `{}`, `{"a":null}`} {
		for _, p := range []string{`{"a":{"b":null,"z":{"q":null}},"d":[{"e":null,"g":1}],"n":null}`, `{"a":[{"x":null}]}`, `[{"a":null}]`, `null`, `{}`, `{"a":{"c":{"d":null}}}`} {
			f.Add([]byte(d), []byte(p))
		}
	}
	f.Fuzz(func(t *testing.T, doc, patch []byte) {
		ev.FuzzCheck(t, "C02", unit, Case{Doc: string(doc), Patch: string(patch)})
	})
}
