package c07

import (
	"testing"

	"github.com/evanphx/json-patch/v5/xverif/ev"
)

// FuzzCompose: (document, patch 1, patch 2) against the composition law.
func FuzzCompose(f *testing.F) {
	for _, d := range []string{`{"a":{"b":1,"c":2},"d":[1]}`, `{}`, `[1]`} {
		for _, p1 := range []string{`{"a":{"b":null,"e":{"f":null}},"g":[{"h":null}]}`, `{"d":null}`, `{}`} {
			for _, p2 := range []string{`{"a":{"c":null,"e":{"f":1}},"g":[{"i":null}]}`, `{"a":null}`, `[1]`, `{"d":{"x":null}}`} {
				f.Add([]byte(d), []byte(p1), []byte(p2))
			}
		}
	}
	f.Fuzz(func(t *testing.T, d, p1, p2 []byte) {
		ev.FuzzCheck(t, "C07", unit, Case{D: string(d), P1: string(p1), P2: string(p2)})
	})
}
