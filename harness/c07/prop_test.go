// C07 — MergeMergePatches composes two merge patches (v5).
package c07

import (
	"fmt"
	"testing"

	jp "github.com/evanphx/json-patch/v5"
	"github.com/evanphx/json-patch/v5/xverif/ev"
	"github.com/evanphx/json-patch/v5/xverif/gen"
	"github.com/evanphx/json-patch/v5/xverif/laws"
	"github.com/evanphx/json-patch/v5/xverif/ref"
	"pgregory.net/rapid"
)

type Case struct {
	D  string `json:"doc"`
	P1 string `json:"patch1"`
	P2 string `json:"patch2"`
}

func sprinkleNulls(t *rapid.T, v *ref.V, label string) {
	if v.K != ref.KObj {
		return
	}
	for i := range v.Vals {
		if gen.OneIn(t, 5, label+"n") {
			v.Vals[i] = ref.Null()
		} else {
			sprinkleNulls(t, v.Vals[i], label)
		}
	}
	if gen.OneIn(t, 4, label+"add") {
		v.Set(rapid.SampledFrom(gen.WithEmptyName.Keys).Draw(t, label+"k"), ref.Null())
	}
}

func draw(t *rapid.T) Case {
	c := gen.WithEmptyName
	d := c.Value(3).Draw(t, "d")
	if d.K == ref.KNull {
		d = ref.Obj()
	}
	p1 := c.Mutate(t, d, 2)
	if p1.K != ref.KObj || gen.OneIn(t, 3, "indep1") {
		p1 = c.Object(3).Draw(t, "p1")
	}
	sprinkleNulls(t, p1, "s1")
	var p2 *ref.V
	switch gen.Uniform(t, 0, 9, "p2k") {
	case 0:
		p2 = c.Value(2).Draw(t, "p2v") // possibly a non-object
	case 1:
		p2 = c.Object(3).Draw(t, "p2o")
	default:
		p2 = c.Mutate(t, p1, 2)
	}
	sprinkleNulls(t, p2, "s2")
	// plant a shared nested path where one side deletes
	if p2.K == ref.KObj && rapid.Bool().Draw(t, "plant") {
		var nested []string
		for i, k := range p1.Keys {
			if p1.Vals[i].K == ref.KObj && len(p1.Vals[i].Keys) > 0 {
				nested = append(nested, k)
			}
		}
		if len(nested) > 0 {
			k := rapid.SampledFrom(nested).Draw(t, "pk")
			o1, _ := p1.Get(k)
			m := rapid.SampledFrom(o1.Keys).Draw(t, "pm")
			o2, ok := p2.Get(k)
			if !ok || o2.K != ref.KObj {
				o2 = ref.Obj()
				p2.Set(k, o2)
			}
			switch gen.Uniform(t, 0, 2, "pw") {
			case 0:
				o2.Set(m, ref.Null())
			case 1:
				o1.Set(m, ref.Null())
				o2.Set(m, c.Value(1).Draw(t, "pv"))
			case 2:
				o1.Set(m, ref.Null())
				o2.Set(m, ref.Null())
			}
		}
	}
	if gen.OneIn(t, 10, "p1repeat") {
		// P1 spells a member name twice (scalar values), at the root or in a nested object: the RFC
		// leaves the meaning of P1 open then, but not what becomes of P2's deletions
		var objs []*ref.V
		p1.Walk(func(x *ref.V) {
			if x.K == ref.KObj && len(x.Keys) > 0 {
				objs = append(objs, x)
			}
		})
		if len(objs) > 0 {
			o := objs[gen.Uniform(t, 0, len(objs)-1, "ro")]
			i := gen.Uniform(t, 0, len(o.Keys)-1, "ri")
			if o.Vals[i].K != ref.KObj && o.Vals[i].K != ref.KArr {
				o.Keys = append(o.Keys, o.Keys[i])
				o.Vals = append(o.Vals, c.Scalar().Draw(t, "rv"))
				if p2.K == ref.KObj && o == p1 && rapid.Bool().Draw(t, "rdel") {
					p2.Set(rapid.SampledFrom([]string{"zq", "b", "", "a"}).Draw(t, "rk"), ref.Null())
				}
			}
		}
	}
	p1t, p2t := gen.Texts(t, p1, p2, false, "sp")
	return Case{D: d.Text(false), P1: p1t, P2: p2t}
}

func check(c Case) ev.Verdict {
	d, e0 := ref.Parse([]byte(c.D))
	p1, e1 := ref.Parse([]byte(c.P1))
	p2, e2 := ref.Parse([]byte(c.P2))
	if e0 != nil || e1 != nil || e2 != nil {
		return ev.Excluded("not well-formed")
	}
	if d.K != ref.KNull && p1.K == ref.KObj && p2.K == ref.KObj && !d.HasDup() && p1.HasDup() && !p2.HasDup() {
		return checkRepeated(c, p1, p2)
	}
	if d.K == ref.KNull || p1.K != ref.KObj || d.HasDup() || p1.HasDup() || p2.HasDup() {
		return ev.Excluded("null document, non-object first patch or duplicate names")
	}
	if p2.K == ref.KObj && !laws.Compat(p1, p2) {
		return ev.Excluded("incompatible pair (P2 holds an object where P1 holds a non-object)", "incompatible")
	}
	var out []byte
	var err error
	if p := ev.Safe(func() { out, err = jp.MergeMergePatches([]byte(c.P1), []byte(c.P2)) }); p != nil {
		return ev.Verdict{Err: p}
	}
	if p2.K != ref.KObj {
		v := ev.Verdict{Classes: []string{"p2-not-object"}}
		if err != nil {
			v.Err = fmt.Errorf("MergeMergePatches failed: %v", err)
			return v
		}
		g, perr := ref.Parse(out)
		if perr != nil || !ref.Equal(g, p2) {
			v.Err = fmt.Errorf("second patch is not an object, so the combined patch must be the second patch; got %s", out)
		}
		return v
	}
	v := ev.Verdict{Classes: []string{"compatible"}}
	v.NonTrivial = laws.SharedNull(p1, p2, 0)
	if v.NonTrivial {
		v.Classes = append(v.Classes, "shared-path-with-null")
	}
	if err != nil {
		v.Err = fmt.Errorf("MergeMergePatches failed: %v", err)
		return v
	}
	comb, perr := ref.Parse(out)
	if perr != nil {
		v.Err = fmt.Errorf("combined patch not well-formed: %q", out)
		return v
	}
	seq := ref.Merge(ref.Merge(d, p1), p2)
	one := ref.Merge(d, comb)
	if !ref.Equal(seq, one) {
		v.Err = fmt.Errorf("applying the combined patch differs from applying P1 then P2 (reference MergePatch)\n combined: %s\n P1;P2:    %s\n combined applied: %s", out, seq, one)
		return v
	}
	// the same through the library's own MergePatch
	var l1, l2, l3 []byte
	var x1, x2, x3 error
	if p := ev.Safe(func() {
		l1, x1 = jp.MergePatch([]byte(c.D), []byte(c.P1))
		if x1 == nil {
			l2, x2 = jp.MergePatch(l1, []byte(c.P2))
		}
		l3, x3 = jp.MergePatch([]byte(c.D), out)
	}); p != nil {
		return ev.Verdict{Err: p}
	}
	if x1 != nil || x2 != nil || x3 != nil {
		// a null intermediate document is outside MergePatch's domain
		if r1 := ref.Merge(d, p1); r1.K == ref.KNull {
			return v
		}
		v.Err = fmt.Errorf("library MergePatch failed: %v / %v / %v", x1, x2, x3)
		return v
	}
	v2, ea := ref.Parse(l2)
	v3, eb := ref.Parse(l3)
	if ea != nil || eb != nil || !ref.Equal(v2, v3) {
		v.Err = fmt.Errorf("library: applying the combined patch differs from applying P1 then P2\n combined: %s\n P1;P2:    %s\n combined applied: %s", out, l2, l3)
	}
	return v
}

// last returns the last member of o called k and how many there are.
func last(o *ref.V, k string) (v *ref.V, n int) {
	for i, name := range o.Keys {
		if name == k {
			v, n = o.Vals[i], n+1
		}
	}
	return
}

// nullsSurvive: every null member of P2 is a null member of the combined patch (a later value
// overrides an earlier one, and deletions survive), followed into objects wherever P1 and the
// combined patch hold exactly one object of that name.
func nullsSurvive(p1, p2, comb *ref.V, path string) error {
	for i, k := range p2.Keys {
		v2 := p2.Vals[i]
		cv, cn := last(comb, k)
		switch {
		case v2.K == ref.KNull:
			if cn == 0 || cv.K != ref.KNull {
				return fmt.Errorf("P2 deletes %s/%s but the combined patch does not", path, k)
			}
		case v2.K == ref.KObj:
			v1, n1 := last(p1, k)
			if n1 == 1 && v1.K == ref.KObj && cn == 1 && cv.K == ref.KObj {
				if err := nullsSurvive(v1, v2, cv, path+"/"+k); err != nil {
					return err
				}
			}
		}
	}
	return nil
}

// checkRepeated: P1 repeats a member name. What P1 means is then open, and nothing is compared
// with a reference merge; but the call must succeed, give well-formed JSON, and keep every
// deletion of P2 - that clause of the property does not depend on P1.
func checkRepeated(c Case, p1, p2 *ref.V) ev.Verdict {
	var out []byte
	var err error
	if p := ev.Safe(func() { out, err = jp.MergeMergePatches([]byte(c.P1), []byte(c.P2)) }); p != nil {
		return ev.Verdict{Err: p}
	}
	v := ev.Verdict{Classes: []string{"p1-repeats-a-name"}}
	if err != nil {
		v.Err = fmt.Errorf("MergeMergePatches failed: %v", err)
		return v
	}
	comb, perr := ref.Parse(out)
	if perr != nil || comb.K != ref.KObj {
		v.Err = fmt.Errorf("combined patch not a well-formed object: %q", out)
		return v
	}
	hasNull := false
	for _, x := range p2.Vals {
		hasNull = hasNull || x.K == ref.KNull
	}
	v.NonTrivial = hasNull
	if e := nullsSurvive(p1, p2, comb, ""); e != nil {
		v.Err = fmt.Errorf("%v\n combined: %s", e, out)
	}
	return v
}

var unit = ev.Unit[Case]{
	Name: "compose",
	Rule: "D any non-null JSON x P1 object (mutation of D or independent) x P2 = mutation of P1, independent object or non-object, nulls sprinkled at every depth of both; pairs violating the compatibility condition are excluded (counted); oracle: reference MergePatch(D, combined) = MergePatch(MergePatch(D,P1),P2), the same through the library's MergePatch, and combined = P2 when P2 is not an object; non-trivial = P1 and P2 share a member path below the first level where one of them holds null; one P1 in ten spells a scalar member twice: no reference merge then, only that the call succeeds with a well-formed object in which every null member of P2 is still a null member (class p1-repeats-a-name)",
	Draw: draw, Check: check,
}

func TestProp(t *testing.T)   { ev.RunProp(t, "C07", unit) }
func TestReplay(t *testing.T) { ev.Replay(t, map[string]ev.Replayer{unit.Name: unit.Replayer()}) }
