// C18 — legacy root package: applicable RFC 6902 patches give the RFC result.
// The root package (import path github.com/evanphx/json-patch) is staged as a
// module from /repo's working tree by the driver.
package c18

import (
	"fmt"
	"testing"

	jl "github.com/evanphx/json-patch"
	"github.com/evanphx/json-patch/v5/xverif/ev"
	"github.com/evanphx/json-patch/v5/xverif/gen"
	"github.com/evanphx/json-patch/v5/xverif/lib"
	"github.com/evanphx/json-patch/v5/xverif/ref"
	"pgregory.net/rapid"
)

type Case struct {
	Doc   string `json:"doc"`
	Patch string `json:"patch"`
	Neg   bool   `json:"support_negative_indices"`
}

// safeStr: spelled the same by every writer (no escapes needed, none of <, >, &, U+2028/9).
func safeStr(s string) bool {
	for _, r := range s {
		if r < 0x20 || r == '"' || r == '\\' || r == '<' || r == '>' || r == '&' || r == 0x2028 || r == 0x2029 || r == 0x7f {
			return false
		}
	}
	return true
}

func safeValue(v *ref.V) bool {
	return !v.Any(func(x *ref.V) bool { return x.K == ref.KStr && !safeStr(x.Str) })
}

func draw(t *rapid.T) Case {
	if gen.OneIn(t, 400, "manyops") {
		d, ops := gen.ManyOps(t)
		return Case{Doc: d.Text(false), Patch: ref.OpsText(ops, false), Neg: rapid.Bool().Draw(t, "mneg")}
	}
	doc := gen.Default.Root().Draw(t, "doc")
	neg := rapid.Bool().Draw(t, "neg")
	g := gen.NewOpGen(neg)
	g.Legacy = true
	if !gen.OneIn(t, 4, "noisy") {
		g.Calm()
	}
	// near-misses that the property judges: absent member / out of range / negative / below absent or scalar
	g.MissKinds = []int{0, 1, 3, 4, 5, 6, 9}
	g.Swarm(t)
	g.Orig = doc.Clone()
	ro := ref.Opts{Neg: neg}
	st := &ref.State{Root: doc.Clone()}
	var ops []ref.Op
	if gen.OneIn(t, 20, "alias") {
		ops := g.Alias(t, doc, ro)
		var keep []ref.Op
		for _, op := range ops {
			if op.Op != "test" || safeValue(op.Value) {
				keep = append(keep, op)
			}
		}
		return Case{Doc: doc.Text(false), Patch: ref.OpsText(keep, false), Neg: neg}
	}
	n := gen.Uniform(t, 0, 8, "nops")
	if gen.OneIn(t, 15, "longseq") {
		n = gen.Uniform(t, 9, 24, "nopslong")
	}
	for i := 0; i < n; i++ {
		var op ref.Op
		for try := 0; try < 4; try++ {
			op = g.Next(t, st.Root, i)
			if op.Op != "test" || safeValue(op.Value) {
				break
			}
			op = ref.Op{}
		}
		if op.Op == "" {
			continue
		}
		ops = append(ops, op)
		trial := &ref.State{Root: st.Root.Clone()}
		if r := ref.Step(trial, op, ro); r.Cause != ref.COK {
			break
		}
		st = trial
	}
	if gen.OneIn(t, 4, "respell") {
		// insignificant whitespace only: the legacy package compares test values by spelling
		ws := gen.SpellCfg{WS: true}
		return Case{Doc: gen.SpellWith(t, doc, ws, "sd"), Patch: gen.SpellWith(t, ref.OpsTree(ops), ws, "spp"), Neg: neg}
	}
	return Case{Doc: doc.Text(false), Patch: ref.OpsText(ops, false), Neg: neg}
}

func apply(c Case) (out []byte, err error, p error) {
	return applyVia(c, false)
}

// applyVia with indent: the indenting entry point (two spaces).
func applyVia(c Case, indent bool) (out []byte, err error, p error) {
	p = ev.Safe(func() {
		var pt jl.Patch
		pt, err = jl.DecodePatch([]byte(c.Patch))
		if err != nil {
			err = fmt.Errorf("DecodePatch: %w", err)
			return
		}
		old := jl.SupportNegativeIndices
		jl.SupportNegativeIndices = c.Neg
		defer func() { jl.SupportNegativeIndices = old }()
		if indent {
			out, err = pt.ApplyIndent([]byte(c.Doc), "  ")
		} else {
			out, err = pt.Apply([]byte(c.Doc))
		}
	})
	return
}

func check(c Case) ev.Verdict {
	doc, ops, why := lib.ParseCase(c.Doc, c.Patch)
	if why != "" {
		return ev.Excluded(why)
	}
	for _, op := range ops {
		switch {
		case op.Op == "add" && op.Path == "", op.Op == "copy" && op.From == "":
			return ev.Excluded("root-replacing add / copy from \"\" (v4 does not offer them)")
		case op.Op == "test" && op.Value != nil && !safeValue(op.Value):
			return ev.Excluded("test compares a string that needs escaping or holds <, >, &")
		}
	}
	want := ref.Apply(doc, ops, ref.Opts{Neg: c.Neg})
	out, err, pn := apply(c)
	if want.OutOfDomain() {
		return ev.Excluded("out of domain: "+want.Res.Why, "ood")
	}
	negc := fmt.Sprintf("neg=%v", c.Neg)
	if !want.OK() {
		op := ops[want.FailAt]
		cause := want.Res.Cause
		judged := cause == ref.CTestUnequal || cause == ref.CIndexRange || cause == ref.CNegOff ||
			((op.Op == "remove" || op.Op == "move") && (cause == ref.CAbsentMember || cause == ref.CParentUnreachable))
		if !judged {
			return ev.Excluded(fmt.Sprintf("first inapplicable operation is %s/%s (not among the failures v4 claims to report)", op.Op, cause), "unclaimed-failure")
		}
	}
	if pn != nil {
		return ev.Verdict{Err: pn}
	}
	if !want.OK() {
		op := ops[want.FailAt]
		cause := want.Res.Cause
		v := ev.Verdict{Classes: []string{fmt.Sprintf("fail/%s/%s", op.Op, cause), negc}, NonTrivial: want.FailAt >= 1 || cause != ref.CTestUnequal}
		if err == nil {
			v.Err = fmt.Errorf("operation %d (%s) is inapplicable (%s) but Apply succeeded with %s", want.FailAt, op.Op, cause, out)
		} else if out != nil {
			v.Err = fmt.Errorf("error %v returned together with a document", err)
		} else if iout, ierr, ipn := applyVia(c, true); ipn != nil {
			v.Err = fmt.Errorf("ApplyIndent: %v", ipn)
		} else if ierr == nil || iout != nil {
			v.Err = fmt.Errorf("Apply fails (%v) but ApplyIndent returns %q, %v", err, iout, ierr)
		}
		return v
	}
	v := ev.Verdict{Classes: []string{fmt.Sprintf("ok/nops=%d", len(ops)), negc}, NonTrivial: want.Applied >= 2}
	if err != nil {
		v.Err = fmt.Errorf("every operation is applicable (reference result %s) but Apply failed: %v", want.Doc, err)
		return v
	}
	g, perr := ref.Parse(out)
	if perr != nil {
		v.Err = fmt.Errorf("output not well-formed: %q", out)
		return v
	}
	if !ref.Equal(g, want.Doc) {
		v.Err = fmt.Errorf("result differs from the RFC result (up to member order, numbers by literal)\n got:  %s\n want: %s", out, want.Doc)
		return v
	}
	// the indenting entry point is the same Apply
	iout, ierr, ipn := applyVia(c, true)
	if ipn != nil {
		v.Err = fmt.Errorf("ApplyIndent: %v", ipn)
	} else if ierr != nil {
		v.Err = fmt.Errorf("Apply succeeds but ApplyIndent fails: %v", ierr)
	} else if gi, perr := ref.Parse(iout); perr != nil || !ref.Equal(gi, want.Doc) {
		v.Err = fmt.Errorf("ApplyIndent's result differs from the RFC result\n got:  %s\n want: %s", iout, want.Doc)
	}
	return v
}

var unit = ev.Unit[Case]{
	Name: "legacy-apply",
	Rule: "as C01 against the staged root package: document x state-aware sequence of 0-8 operations (no root-replacing add, no copy from \"\", test values without strings that need escaping) x SupportNegativeIndices via the package variable; oracle: reference evaluator - all applicable => success and Equal up to member order with number literals; first failure a failed test, a remove/move of an absent location, an out-of-range or negative-while-off index => error and nil document; other first failures excluded (v4 accepts e.g. replace of an absent member); the indenting entry point ApplyIndent must give the same outcome and value; non-trivial as C01",
	Draw: draw, Check: check,
}

func TestProp(t *testing.T)   { ev.RunProp(t, "C18", unit) }
func TestReplay(t *testing.T) { ev.Replay(t, map[string]ev.Replayer{unit.Name: unit.Replayer()}) }
