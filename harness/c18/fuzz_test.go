package c18

import (
	"testing"

	"github.com/evanphx/json-patch/v5/xverif/ev"
)

// FuzzLegacyApply: (document, patch, negative-index setting) against the staged legacy package.
func FuzzLegacyApply(f *testing.F) {
	for _, d := range []string{`{"a":{"b":[1,2,{"c":null}]},"x/y":1.0,"m~n":"s"}`, ` [[1,2],{"a":null},"s",-0]`, `{}`, `[]`} {
		for _, p := range []string{`[{"op":"add","path":"/a/b/1","value":{"k":[null]}},{"op":"copy","from":"/a","path":"/z"},{"op":"move","from":"/a/b/0","path":"/a/b/-"},{"op":"test","path":"/z/b/0","value":1},{"op":"remove","path":"/x~1y"},{"op":"replace","path":"/m~0n","value":null}]`, `[{"op":"add","path":"/0/-1","value":3},{"op":"remove","path":"/-1"},{"op":"test","path":"/1/a","value":null}]`, `[]`} {
			f.Add([]byte(d), []byte(p), true)
			f.Add([]byte(d), []byte(p), false)
		}
	}
	f.Fuzz(func(t *testing.T, doc, patch []byte, neg bool) {
		ev.FuzzCheck(t, "C18", unit, Case{Doc: string(doc), Patch: string(patch), Neg: neg})
	})
}
