package c17

import (
	"bytes"
	"encoding/base64"
	stdjson "encoding/json"
	"fmt"
	"io"
	"math"
	"reflect"
	"sort"
	"strings"
	"testing"

	fj "github.com/evanphx/json-patch/v5/internal/json"
	"github.com/evanphx/json-patch/v5/xverif/ev"
	"github.com/evanphx/json-patch/v5/xverif/gen"
	"github.com/evanphx/json-patch/v5/xverif/ref"
	"pgregory.net/rapid"
)

// TypeDesc is a serialisable description of a Go type built with reflect.
type TypeDesc struct {
	Kind   string      `json:"kind"` // bool int int8 int16 int32 int64 uint uint8 uint16 uint32 uint64 float32 float64 string bytes any slice array map ptr struct
	Elem   *TypeDesc   `json:"elem,omitempty"`
	Key    string      `json:"key,omitempty"` // map key kind: string int uint8
	Len    int         `json:"len,omitempty"`
	Fields []FieldDesc `json:"fields,omitempty"`
}

type FieldDesc struct {
	Name      string   `json:"name"`
	Tag       string   `json:"tag,omitempty"`
	Anonymous bool     `json:"anonymous,omitempty"`
	Type      TypeDesc `json:"type"`
}

var basic = map[string]reflect.Type{
	"bool": reflect.TypeOf(false), "int": reflect.TypeOf(int(0)), "int8": reflect.TypeOf(int8(0)), "int16": reflect.TypeOf(int16(0)),
	"int32": reflect.TypeOf(int32(0)), "int64": reflect.TypeOf(int64(0)), "uint": reflect.TypeOf(uint(0)), "uint8": reflect.TypeOf(uint8(0)),
	"uint16": reflect.TypeOf(uint16(0)), "uint32": reflect.TypeOf(uint32(0)), "uint64": reflect.TypeOf(uint64(0)),
	"float32": reflect.TypeOf(float32(0)), "float64": reflect.TypeOf(float64(0)), "string": reflect.TypeOf(""),
	"bytes": reflect.TypeOf([]byte(nil)), "any": reflect.TypeOf((*any)(nil)).Elem(),
}

// Named types with the hook methods both codecs look for. reflect.StructOf
// cannot attach methods, so these are ordinary types used as field, element
// and map-key types.

// textM implements encoding.TextMarshaler (value receiver) and TextUnmarshaler.
type textM struct{ V string }

func (x textM) MarshalText() ([]byte, error) {
	if strings.HasPrefix(x.V, "!") {
		return nil, fmt.Errorf("textM refuses %q", x.V)
	}
	return []byte("T:" + x.V), nil
}
func (x *textM) UnmarshalText(b []byte) error {
	if strings.HasPrefix(string(b), "!") {
		return fmt.Errorf("textM refuses %q", b)
	}
	x.V = strings.TrimPrefix(string(b), "T:")
	return nil
}

// jsonM implements Marshaler / Unmarshaler: it keeps the raw text it was given.
type jsonM struct{ Raw string }

func (x jsonM) MarshalJSON() ([]byte, error) {
	if x.Raw == "" {
		return []byte("null"), nil
	}
	return []byte(x.Raw), nil // not compacted, possibly with <, >, &: the encoder must do that
}
func (x *jsonM) UnmarshalJSON(b []byte) error {
	if bytes.HasPrefix(b, []byte(`"!`)) {
		return fmt.Errorf("jsonM refuses %s", b)
	}
	x.Raw = string(b)
	return nil
}

func init() {
	basic["textm"] = reflect.TypeOf(textM{})
	basic["jsonm"] = reflect.TypeOf(jsonM{})
}

var basicNames = []string{"textm", "jsonm", "bool", "int", "int8", "int16", "int64", "uint", "uint8", "uint16", "uint64", "float32", "float64", "string", "string", "bytes", "any", "any"}

func (d TypeDesc) build() (rt reflect.Type, err error) {
	defer func() {
		if p := recover(); p != nil {
			err = fmt.Errorf("reflect: %v", p)
		}
	}()
	if t, ok := basic[d.Kind]; ok {
		return t, nil
	}
	switch d.Kind {
	case "slice", "array", "ptr", "map":
		if d.Elem == nil {
			return nil, fmt.Errorf("missing elem")
		}
		et, err := d.Elem.build()
		if err != nil {
			return nil, err
		}
		switch d.Kind {
		case "slice":
			return reflect.SliceOf(et), nil
		case "array":
			if d.Len < 0 || d.Len > 8 {
				return nil, fmt.Errorf("array length")
			}
			return reflect.ArrayOf(d.Len, et), nil
		case "ptr":
			return reflect.PointerTo(et), nil
		default:
			kt, ok := basic[d.Key]
			if !ok || (d.Key != "string" && d.Key != "int" && d.Key != "uint8" && d.Key != "textm") {
				return nil, fmt.Errorf("map key kind")
			}
			return reflect.MapOf(kt, et), nil
		}
	case "struct":
		var fs []reflect.StructField
		for _, f := range d.Fields {
			ft, err := f.Type.build()
			if err != nil {
				return nil, err
			}
			fs = append(fs, reflect.StructField{Name: f.Name, Type: ft, Tag: reflect.StructTag(f.Tag), Anonymous: f.Anonymous})
		}
		return reflect.StructOf(fs), nil
	}
	return nil, fmt.Errorf("unknown kind %q", d.Kind)
}

var fieldNames = []string{"A", "B", "C", "Dd", "Key", "Sk", "Ks", "X1", "Zz", "Name", "K"}
var tagNames = []string{"disk_size", "key2", "max-items", "s_1", "", "a", "b", "A", "key", "KEY", "x-y", "é", "k", "s", "K", "S", "dd", "with space", "<tag>", "0", "name", "ſk", "Kk",
	// names made of characters outside the letters, digits and punctuation that a tag name may hold, and just inside
	"wait\u2026", "a\u2020b", "x\u2028", "q\u203f", "\U0001F525", "a.b", "a$b", "a!b#", "\u03c0", "\u540d\u524d", "a\u00a0b", "a\"b", "a\\b", "a,b", "~x", "a:b", "@a", "a[0]", "{a}", "a|b", "a;b", "a=b", "a+b", "a*b", "a/b", "a^b", "a`b", "a'b", "a?b", "a%b", "a&b", "(a)"}

func genType(t *rapid.T, depth int, label string) TypeDesc {
	k := gen.Uniform(t, 0, 11, label+"k")
	if depth <= 0 && k >= 6 {
		k = 0
	}
	switch k {
	case 6:
		e := genType(t, depth-1, label+"s")
		return TypeDesc{Kind: "slice", Elem: &e}
	case 7:
		e := genType(t, depth-1, label+"m")
		return TypeDesc{Kind: "map", Key: rapid.SampledFrom([]string{"string", "string", "int", "uint8", "textm"}).Draw(t, label+"mk"), Elem: &e}
	case 8:
		e := genType(t, depth-1, label+"p")
		return TypeDesc{Kind: "ptr", Elem: &e}
	case 9, 10:
		return genStruct(t, depth-1, label+"st")
	case 11:
		e := genType(t, depth-1, label+"a")
		return TypeDesc{Kind: "array", Len: gen.Uniform(t, 0, 3, label+"an"), Elem: &e}
	default:
		return TypeDesc{Kind: rapid.SampledFrom(basicNames).Draw(t, label+"b")}
	}
}

func genStruct(t *rapid.T, depth int, label string) TypeDesc {
	n := gen.Uniform(t, 0, 5, label+"nf")
	d := TypeDesc{Kind: "struct"}
	used := map[string]bool{}
	for i := 0; i < n; i++ {
		l := fmt.Sprintf("%sf%d", label, i)
		name := rapid.SampledFrom(fieldNames).Draw(t, l+"name")
		if used[name] {
			continue
		}
		used[name] = true
		f := FieldDesc{Name: name, Type: genType(t, depth, l)}
		if f.Type.Kind == "struct" && gen.OneIn(t, 3, l+"emb") {
			f.Anonymous = true
		}
		if f.Type.Kind == "ptr" && f.Type.Elem.Kind == "struct" && gen.OneIn(t, 4, l+"embp") {
			f.Anonymous = true
		}
		tn := rapid.SampledFrom(tagNames).Draw(t, l+"tn")
		switch gen.Uniform(t, 0, 7, l+"tag") {
		case 0, 1:
		case 2:
			f.Tag = fmt.Sprintf(`json:%q`, tn)
		case 3:
			f.Tag = fmt.Sprintf(`json:%q`, tn+",omitempty")
		case 4:
			f.Tag = fmt.Sprintf(`json:%q`, tn+",string")
		case 5:
			f.Tag = `json:"-"`
		case 6:
			f.Tag = fmt.Sprintf(`json:%q`, ",omitempty,string")
		case 7:
			f.Tag = rapid.SampledFrom([]string{`json:"-,"`, `json:",omitempty"`, `json:"a,omitempty,string"`, `json:"a,unknownopt"`, `json:"a, omitempty"`, `json:"a,omitempty "`, `json:"a, string"`, `json:" a"`, `json:"a ,omitempty"`, `json:"a,OMITEMPTY"`, `json:"a,omitempty,omitempty"`, `json:"a,,string"`, `xml:"a"`, `json:"a" xml:"b"`}).Draw(t, l+"odd")
		}
		d.Fields = append(d.Fields, f)
	}
	return d
}

// keyVariants: spellings under which a struct key may arrive.
func keyVariants(t *rapid.T, name string, l string) string {
	switch gen.Uniform(t, 0, 7, l+"kv") {
	case 0:
		return strings.ToUpper(name)
	case 1:
		return strings.ToLower(name)
	case 2:
		return strings.ReplaceAll(strings.ReplaceAll(name, "k", "K"), "K", "K") // Kelvin sign folds to k
	case 3:
		return strings.ReplaceAll(strings.ReplaceAll(name, "s", "ſ"), "S", "ſ") // long s folds to s
	}
	return name
}

func jsonName(f FieldDesc) (string, bool) {
	tag := reflect.StructTag(f.Tag).Get("json")
	if tag == "-" {
		return "", false
	}
	name := strings.Split(tag, ",")[0]
	if name == "" {
		name = f.Name
	}
	return name, true
}

// genInput produces a JSON value directed by the type, with injected mismatches.
func genInput(t *rapid.T, d TypeDesc, depth int, l string) *ref.V {
	if gen.OneIn(t, 14, l+"mismatch") {
		return richCfg.Value(1).Draw(t, l+"mm")
	}
	if gen.OneIn(t, 16, l+"null") {
		return ref.Null()
	}
	num := func(pool []string) *ref.V { return ref.Num(rapid.SampledFrom(pool).Draw(t, l+"n")) }
	switch d.Kind {
	case "bool":
		return ref.Bool(rapid.Bool().Draw(t, l+"b"))
	case "int", "int64":
		return num([]string{"0", "1", "-1", "42", "9223372036854775807", "-9223372036854775808", "9223372036854775808", "1.0", "1e2", "1.5", "-0"})
	case "int8":
		return num([]string{"0", "1", "-1", "127", "-128", "128", "-129", "1e1", "300"})
	case "int16", "int32":
		return num([]string{"0", "-1", "32767", "32768", "2147483647", "2147483648", "-40000"})
	case "uint", "uint64":
		return num([]string{"0", "1", "18446744073709551615", "18446744073709551616", "-1", "1.0", "7"})
	case "uint8":
		return num([]string{"0", "1", "255", "256", "-1", "12"})
	case "uint16", "uint32":
		return num([]string{"0", "65535", "65536", "4294967295", "4294967296"})
	case "float32":
		return num([]string{"0", "1.5", "-2.25", "3.4028235e38", "3.5e38", "1e-50", "0.1", "16777217", "-0"})
	case "float64":
		return num([]string{"0", "1.5", "-2.25", "1e308", "1e309", "1e-400", "0.1", "9007199254740993", "-0", "1E400", "123456789012345678901234567890"})
	case "string":
		return ref.Str(rapid.SampledFrom(richCfg.Strs).Draw(t, l+"s"))
	case "bytes":
		if gen.OneIn(t, 6, l+"badb64") {
			return ref.Str(rapid.SampledFrom([]string{"!", "YQ", "YQ=", "YWJj\n", "====", "a b"}).Draw(t, l+"bb"))
		}
		raw := rapid.SliceOfN(rapid.Byte(), 0, 6).Draw(t, l+"raw")
		return ref.Str(base64.StdEncoding.EncodeToString(raw))
	case "any":
		return richCfg.Value(2).Draw(t, l+"any")
	case "textm":
		return ref.Str(rapid.SampledFrom([]string{"T:a", "plain", "", "!no", "T:<&>", "T:\u00e9", "x\ry"}).Draw(t, l+"tm"))
	case "jsonm":
		if gen.OneIn(t, 8, l+"jmbad") {
			return ref.Str("!refused")
		}
		return richCfg.Value(2).Draw(t, l+"jm")
	case "slice", "array":
		n := gen.Uniform(t, 0, 3, l+"len")
		a := ref.Arr()
		for i := 0; i < n; i++ {
			a.Arr = append(a.Arr, genInput(t, *d.Elem, depth-1, fmt.Sprintf("%s[%d]", l, i)))
		}
		return a
	case "ptr":
		return genInput(t, *d.Elem, depth, l+"*")
	case "map":
		o := ref.Obj()
		n := gen.Uniform(t, 0, 3, l+"mlen")
		for i := 0; i < n; i++ {
			var k string
			switch d.Key {
			case "int":
				k = rapid.SampledFrom([]string{"0", "1", "-5", "x", "1.5", "9223372036854775808", " 1", "+1", "01", "10", "2", "-10", "200"}).Draw(t, l+"ik")
			case "uint8":
				k = rapid.SampledFrom([]string{"0", "255", "256", "-1", "7", "a"}).Draw(t, l+"uk")
			case "textm":
				k = rapid.SampledFrom([]string{"T:a", "T:b", "b", "!no", "", "T:<k>"}).Draw(t, l+"tk")
			default:
				k = rapid.SampledFrom(richCfg.Keys).Draw(t, l+"sk")
			}
			if _, ok := o.Get(k); !ok {
				o.Set(k, genInput(t, *d.Elem, depth-1, fmt.Sprintf("%s{%d}", l, i)))
			}
		}
		return o
	case "struct":
		o := ref.Obj()
		var fill func(fs []FieldDesc, pre string)
		fill = func(fs []FieldDesc, pre string) {
			for i, f := range fs {
				fl := fmt.Sprintf("%s%s.%d", l, pre, i)
				name, ok := jsonName(f)
				tagName := strings.Split(reflect.StructTag(f.Tag).Get("json"), ",")[0]
				if f.Anonymous && tagName == "" {
					// promoted fields of an embedded struct (possibly behind a pointer)
					et := f.Type
					if et.Kind == "ptr" {
						et = *et.Elem
					}
					if et.Kind == "struct" && !gen.OneIn(t, 4, fl+"skipemb") {
						fill(et.Fields, pre+"e")
					}
					continue
				}
				if !ok && !gen.OneIn(t, 4, fl+"dash") {
					continue
				}
				if !ok {
					name = f.Name
				}
				if gen.OneIn(t, 5, fl+"absent") {
					continue
				}
				key := keyVariants(t, name, fl)
				val := genInput(t, f.Type, depth-1, fl)
				if strings.Contains(f.Tag, ",string") && !gen.OneIn(t, 5, fl+"unquoted") {
					// the ,string option: the value arrives as a JSON string holding the literal
					switch val.K {
					case ref.KNum:
						val = ref.Str(val.Num)
					case ref.KBool:
						val = ref.Str(fmt.Sprint(val.B))
					case ref.KStr:
						val = ref.Str(ref.Quote(val.Str, false))
					}
					if gen.OneIn(t, 8, fl+"badq") {
						val = ref.Str(rapid.SampledFrom([]string{"", " 1", "1 ", "0x1", "tru", `"unterminated`, "null", "1e", "--1", `"a"b"`, "\"a\nb\"", "\"a\tb\"", `"a\"`, `"a\\"`, `""`, `"`, `"\u00e9"`, `"\ud800"`, "\"\xff\"", `"a" `, ` "a"`, `"a""b"`, "nul", "NULL", "+1", "1.", ".5", "01", "1e+", "True"}).Draw(t, fl+"bq"))
					}
				}
				if _, dup := o.Get(key); !dup || gen.OneIn(t, 3, fl+"dupkey") {
					o.Keys = append(o.Keys, key)
					o.Vals = append(o.Vals, val)
				}
			}
		}
		fill(d.Fields, "")
		if gen.OneIn(t, 3, l+"unknown") {
			o.Keys = append(o.Keys, rapid.SampledFrom([]string{"unknown", "zz", "", "A ", "a"}).Draw(t, l+"uk"))
			o.Vals = append(o.Vals, richCfg.Value(1).Draw(t, l+"uv"))
		}
		return o
	}
	return ref.Null()
}

type TypeCase struct {
	Type  TypeDesc `json:"type"`
	Input []byte   `json:"input"`
}

// embedChain: a chain of 3-5 embedded structs (each level also has a field of
// its own, the innermost two or more), the shape in which promoted fields get
// index paths of length 4 and more.
func embedChain(t *rapid.T) TypeDesc {
	n := gen.Uniform(t, 3, 5, "chainn")
	inner := TypeDesc{Kind: "struct", Fields: []FieldDesc{
		{Name: "X1", Tag: `json:"x"`, Type: TypeDesc{Kind: "int"}},
		{Name: "Zz", Tag: `json:"z,omitempty"`, Type: TypeDesc{Kind: "string"}},
		{Name: "Key", Type: TypeDesc{Kind: rapid.SampledFrom(basicNames).Draw(t, "chaink")}},
	}}
	cur := inner
	names := []string{"A", "B", "C", "Dd", "Sk"}
	for i := 0; i < n; i++ {
		emb := FieldDesc{Name: "E", Anonymous: true, Type: cur}
		if gen.OneIn(t, 3, fmt.Sprintf("chainptr%d", i)) {
			c := cur
			emb.Type = TypeDesc{Kind: "ptr", Elem: &c}
		}
		own := FieldDesc{Name: names[i], Type: TypeDesc{Kind: "int"}}
		if gen.OneIn(t, 2, fmt.Sprintf("chaintag%d", i)) {
			own.Tag = fmt.Sprintf(`json:"f%d"`, i)
		}
		cur = TypeDesc{Kind: "struct", Fields: []FieldDesc{own, emb}}
	}
	return cur
}

func drawType(t *rapid.T) TypeCase {
	d := genType(t, 3, "T")
	if gen.OneIn(t, 15, "chain") {
		d = embedChain(t)
	}
	if d.Kind != "struct" && gen.OneIn(t, 2, "forcestruct") {
		d = genStruct(t, 2, "S")
	}
	in := genInput(t, d, 3, "in")
	var text string
	if gen.OneIn(t, 4, "spell") {
		text = gen.Spell(t, in, "sp")
	} else {
		text = in.Text(false)
	}
	if gen.OneIn(t, 6, "poison") {
		// runs of malformed UTF-8, lone-surrogate escapes and the like inside a string literal
		return TypeCase{Type: d, Input: gen.PoisonStrings(t, []byte(text), "poi")}
	}
	return TypeCase{Type: d, Input: []byte(text)}
}

// norm converts any Go value to a comparable tree in which the fork's Number
// and encoding/json's Number are the same thing.
func norm(v reflect.Value) any {
	if !v.IsValid() {
		return nil
	}
	switch v.Kind() {
	case reflect.Interface, reflect.Pointer:
		if v.IsNil() {
			return nil
		}
		return []any{"->", norm(v.Elem())}
	case reflect.Struct:
		out := []any{"struct"}
		for i := 0; i < v.NumField(); i++ {
			out = append(out, v.Type().Field(i).Name, norm(v.Field(i)))
		}
		return out
	case reflect.Map:
		if v.IsNil() {
			return "nilmap"
		}
		type kv struct {
			k string
			v any
		}
		var kvs []kv
		it := v.MapRange()
		for it.Next() {
			kvs = append(kvs, kv{fmt.Sprintf("%#v", it.Key().Interface()), norm(it.Value())})
		}
		sort.Slice(kvs, func(i, j int) bool { return kvs[i].k < kvs[j].k })
		out := []any{"map"}
		for _, e := range kvs {
			out = append(out, e.k, e.v)
		}
		return out
	case reflect.Slice:
		if v.IsNil() {
			return "nilslice"
		}
		fallthrough
	case reflect.Array:
		out := []any{"list"}
		for i := 0; i < v.Len(); i++ {
			out = append(out, norm(v.Index(i)))
		}
		return out
	case reflect.String:
		if v.Type() == reflect.TypeOf(fj.Number("")) || v.Type() == reflect.TypeOf(stdjson.Number("")) {
			return []any{"number", v.String()}
		}
		return v.String()
	case reflect.Float32, reflect.Float64:
		return []any{"float", math.Float64bits(v.Float())}
	case reflect.Bool:
		return v.Bool()
	case reflect.Int, reflect.Int8, reflect.Int16, reflect.Int32, reflect.Int64:
		return v.Int()
	case reflect.Uint, reflect.Uint8, reflect.Uint16, reflect.Uint32, reflect.Uint64:
		return v.Uint()
	}
	return fmt.Sprintf("%#v", v.Interface())
}

// normBF: encoding/json of go1.22+ writes \b and \f, the fork \u0008 and
// \u000c. The same rewriting is applied to both outputs, whatever the parity
// of the backslashes before the letter (a ,string field encodes twice, giving
// \\b vs \\u0008), so it can only merge outputs that differ in exactly this spelling.
func normBF(b []byte) []byte {
	var out []byte
	for i := 0; i < len(b); i++ {
		if b[i] == '\\' && i+1 < len(b) && (b[i+1] == 'b' || b[i+1] == 'f') {
			if b[i+1] == 'b' {
				out = append(out, `\u0008`...)
			} else {
				out = append(out, `\u000c`...)
			}
			i++
			continue
		}
		out = append(out, b[i])
	}
	return out
}

func errType(err error) string {
	switch err {
	case nil:
		return "nil"
	case io.EOF:
		return "io.EOF" // sentinels share a dynamic type: tell them apart by identity
	case io.ErrUnexpectedEOF:
		return "io.ErrUnexpectedEOF"
	case io.ErrNoProgress:
		return "io.ErrNoProgress"
	case errBoom:
		return "errBoom (the reader's own error)"
	}
	return reflect.TypeOf(err).String()
}

func checkType(c TypeCase) ev.Verdict {
	ty, err := c.Type.build()
	if err != nil {
		return ev.Excluded("type cannot be built with reflect: "+strings.SplitN(err.Error(), ":", 2)[0], "unbuildable-type")
	}
	if !ref.Valid(c.Input) {
		return ev.Excluded("input not well-formed (C16)")
	}
	pv1, pv2 := reflect.New(ty), reflect.New(ty)
	var e1, e2 error
	p1 := ev.Safe(func() { e1 = fj.Unmarshal(c.Input, pv1.Interface()) })
	p2 := ev.Safe(func() {
		d := stdjson.NewDecoder(bytes.NewReader(c.Input))
		d.UseNumber()
		e2 = d.Decode(pv2.Interface())
	})
	v := ev.Verdict{}
	if (p1 == nil) != (p2 == nil) {
		v.Err = fmt.Errorf("Unmarshal panics in one implementation only\n fork: %v\n std:  %v\n type: %v", p1, p2, ty)
		return v
	}
	if p1 != nil {
		return ev.Excluded("both implementations panic on this type/input", "both-panic")
	}
	tagged := false
	var walk func(d TypeDesc)
	walk = func(d TypeDesc) {
		for _, f := range d.Fields {
			if f.Tag != "" {
				tagged = true
			}
			walk(f.Type)
		}
		if d.Elem != nil {
			walk(*d.Elem)
		}
	}
	walk(c.Type)
	v.Classes = []string{"root=" + c.Type.Kind, fmt.Sprintf("unmarshal-error=%v", e1 != nil)}
	v.NonTrivial = tagged && e1 == nil
	if errType(e1) != errType(e2) {
		v.Err = fmt.Errorf("Unmarshal error differs\n fork: %v (%s)\n std:  %v (%s)\n type: %v", e1, errType(e1), e2, errType(e2), ty)
		return v
	}
	if n1, n2 := norm(pv1.Elem()), norm(pv2.Elem()); !reflect.DeepEqual(n1, n2) {
		v.Err = fmt.Errorf("decoded values differ\n fork: %v\n std:  %v\n type: %v", n1, n2, ty)
		return v
	}
	// encode what was decoded, every way the two packages share
	type enc struct {
		name string
		fork func() ([]byte, error)
		std  func() ([]byte, error)
	}
	stdEnc := func(escape bool, indent string) func() ([]byte, error) {
		return func() ([]byte, error) {
			var buf bytes.Buffer
			e := stdjson.NewEncoder(&buf)
			e.SetEscapeHTML(escape)
			if indent != "" {
				e.SetIndent("", indent)
			}
			err := e.Encode(pv2.Interface())
			return bytes.TrimSuffix(buf.Bytes(), []byte("\n")), err
		}
	}
	for _, e := range []enc{
		{"Marshal", func() ([]byte, error) { return fj.Marshal(pv1.Interface()) }, func() ([]byte, error) { return stdjson.Marshal(pv2.Interface()) }},
		{"MarshalEscaped(false)", func() ([]byte, error) { return fj.MarshalEscaped(pv1.Interface(), false) }, stdEnc(false, "")},
		{"MarshalEscaped(true)", func() ([]byte, error) { return fj.MarshalEscaped(pv1.Interface(), true) }, stdEnc(true, "")},
		{"MarshalIndent", func() ([]byte, error) { return fj.MarshalIndent(pv1.Interface(), "", " ") }, func() ([]byte, error) { return stdjson.MarshalIndent(pv2.Interface(), "", " ") }},
	} {
		var m1, m2 []byte
		var me1, me2 error
		q1 := ev.Safe(func() { m1, me1 = e.fork() })
		q2 := ev.Safe(func() { m2, me2 = e.std() })
		if (q1 == nil) != (q2 == nil) {
			v.Err = fmt.Errorf("%s panics in one implementation only\n fork: %v\n std:  %v\n type: %v", e.name, q1, q2, ty)
			return v
		}
		if q1 != nil {
			continue
		}
		if errType(me1) != errType(me2) {
			v.Err = fmt.Errorf("%s error differs\n fork: %v\n std:  %v\n type: %v", e.name, me1, me2, ty)
			return v
		}
		if me1 != nil {
			v.Classes = append(v.Classes, "marshal-error")
			continue
		}
		if !bytes.Equal(normBF(m1), normBF(m2)) {
			v.Err = fmt.Errorf("%s output differs\n fork: %s\n std:  %s\n type: %v", e.name, m1, m2, ty)
			return v
		}
	}
	return v
}

var typeUnit = ev.Unit[TypeCase]{
	Name: "types-vs-stdlib",
	Rule: "run-time generated Go types (reflect.StructOf: fields of every basic kind, []byte, any, slices, arrays, maps with string/int/uint8/TextMarshaler keys, named types implementing TextMarshaler/TextUnmarshaler and Marshaler/Unmarshaler (some values refused), pointers, nested and embedded structs; tags with names differing only in case, names needing escaping, omitempty, string, '-', odd options) x type-directed JSON inputs (so that most decode) with injected mismatches (wrong JSON type, overflow, bad base64, bad ,string payloads, null, unknown / case-folded / Kelvin-sign / long-s / duplicate keys); oracle: differential with encoding/json of the default toolchain (Decoder.UseNumber): same dynamic error type, DeepEqual decoded values after mapping the two Number types, identical bytes from Marshal / MarshalEscaped(true,false) vs Encoder.SetEscapeHTML / MarshalIndent after normalising \\b \\f; non-trivial = type with >=1 tagged struct field and input that decodes without error",
	Draw: drawType, Check: checkType,
}

func TestPropTypes(t *testing.T) { ev.RunProp(t, "C17", typeUnit) }
