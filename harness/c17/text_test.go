// C17 — the embedded JSON codec is faithful and order-aware.
// This file: round trips and text transforms; types_test.go: differential
// with encoding/json over run-time generated types; stream_test.go: streams.
package c17

import (
	"bytes"
	stdjson "encoding/json"
	"fmt"
	"sort"
	"testing"

	fj "github.com/evanphx/json-patch/v5/internal/json"
	"github.com/evanphx/json-patch/v5/xverif/ev"
	"github.com/evanphx/json-patch/v5/xverif/gen"
	"github.com/evanphx/json-patch/v5/xverif/ref"
	"pgregory.net/rapid"
)

type TextCase struct {
	Text []byte `json:"text"`
}

var richCfg = func() gen.Cfg {
	c := gen.Default
	c.Strs = append(append([]string{}, c.Strs...), "\b\f", "cr\rlf\r\n", "\x7f", " ", "�", "𝄞", "‍", "a\u0000b", "\\u0041", "&lt;")
	c.Nums = append(append([]string{}, c.Nums...), "-0.0", "0e0", "1E+2", "9007199254740993", "1e-400", "0.000000000000000000001", "-12345678901234567890")
	c.Depth = 4
	return c
}()

func drawText(t *rapid.T) TextCase {
	v := richCfg.Value(4).Draw(t, "v")
	if gen.OneIn(t, 25, "deep") {
		// nesting beyond any fixed-size table of indentation or state (17 ... 70 levels)
		for i, n := 0, gen.Uniform(t, 15, 70, "deepn"); i < n; i++ {
			if (i+n)%3 == 0 {
				v = ref.ObjOf("k", v, "z", ref.Num("1"))
			} else {
				v = ref.Arr(ref.Num("0"), v)
			}
		}
	}
	if gen.OneIn(t, 3, "plain") {
		return TextCase{Text: []byte(v.Text(rapid.Bool().Draw(t, "esc")))}
	}
	return TextCase{Text: []byte(gen.Spell(t, v, "sp"))}
}

// fromAny converts a value decoded by the embedded codec into the reference tree.
func fromAny(x any) (*ref.V, error) {
	switch t := x.(type) {
	case nil:
		return ref.Null(), nil
	case bool:
		return ref.Bool(t), nil
	case string:
		return ref.Str(t), nil
	case fj.Number:
		return ref.Num(string(t)), nil
	case []any:
		a := ref.Arr()
		for _, e := range t {
			v, err := fromAny(e)
			if err != nil {
				return nil, err
			}
			a.Arr = append(a.Arr, v)
		}
		return a, nil
	case map[string]any:
		o := ref.Obj()
		ks := make([]string, 0, len(t))
		for k := range t {
			ks = append(ks, k)
		}
		sort.Strings(ks)
		for _, k := range ks {
			v, err := fromAny(t[k])
			if err != nil {
				return nil, err
			}
			o.Set(k, v)
		}
		return o, nil
	}
	return nil, fmt.Errorf("unexpected Go type %T", x)
}

// uniqueKeys: the distinct member names of o in order of first appearance.
func uniqueKeys(o *ref.V) []string {
	seen := map[string]bool{}
	var out []string
	for _, k := range o.Keys {
		if !seen[k] {
			seen[k] = true
			out = append(out, k)
		}
	}
	return out
}

func checkRoundTrip(c TextCase) (v ev.Verdict) {
	want, info, err := ref.ParseInfo(c.Text)
	if err != nil {
		return ev.Excluded("not well-formed (C16)")
	}
	if want.HasDup() {
		return ev.Excluded("duplicate member names")
	}
	if info.BadUTF8 {
		return ev.Excluded("invalid UTF-8 inside a string")
	}
	exotic := want.Any(func(x *ref.V) bool { return x.K == ref.KNum && len(x.Num) > 15 }) || info.Escapes > 0
	v.NonTrivial = exotic
	if info.LoneSurrogate {
		v.Classes = append(v.Classes, "lone-surrogate")
	}
	type dec struct {
		name string
		f    func(into any) ([]string, error)
	}
	decs := []dec{
		{"Unmarshal", func(into any) ([]string, error) { return nil, fj.Unmarshal(c.Text, into) }},
		{"UnmarshalWithKeys", func(into any) ([]string, error) { return fj.UnmarshalWithKeys(c.Text, into) }},
		{"UnmarshalValid", func(into any) ([]string, error) { return nil, fj.UnmarshalValid(c.Text, into) }},
		{"UnmarshalValidWithKeys", func(into any) ([]string, error) { return fj.UnmarshalValidWithKeys(c.Text, into) }},
	}
	// every slice the codec hands back is kept and must still hold the same bytes
	// (and key lists the same names) after all the later codec calls of this case
	type held struct {
		what string
		got  []byte
		was  []byte
	}
	var kept []held
	var keptKeys [][2][]string
	defer func() {
		if v.Err != nil {
			return
		}
		for _, h := range kept {
			if !bytes.Equal(h.got, h.was) {
				v.Err = fmt.Errorf("the bytes returned by %s changed during later codec calls: now %q, were %q", h.what, h.got, h.was)
				return
			}
		}
		for _, k := range keptKeys {
			if fmt.Sprintf("%q", k[0]) != fmt.Sprintf("%q", k[1]) {
				v.Err = fmt.Errorf("a returned key list changed during later codec calls: now %q, was %q", k[0], k[1])
				return
			}
		}
	}()
	if len(c.Text)%3 == 0 {
		// first a typed decode that is abandoned inside an object by a hard error (a malformed
		// ,string payload): the codec recycles its decoder states, and what such a call leaves
		// behind must not reach the decodes below
		var junk struct {
			M map[string]int `json:"m"`
			N int            `json:"n,string"`
		}
		_ = ev.Safe(func() { _ = fj.Unmarshal([]byte(`{"m":{"q":1},"n":"x12","z":{"a":{"b":1}}}`), &junk) })
		v.Classes = append(v.Classes, "after-an-abandoned-typed-decode")
	}
	for _, d := range decs {
		// target kinds: any always; map / slice when the root fits
		targets := []func() any{func() any { var a any; return &a }}
		if want.K == ref.KObj {
			targets = append(targets, func() any { m := map[string]any{}; return &m })
			// an object of objects also into a map of maps: every member value is decoded as a map
			// of its own, and the key list reported must still be the root's
			nested := len(want.Keys) > 0
			for _, x := range want.Vals {
				if x.K != ref.KObj {
					nested = false
				}
			}
			if nested {
				if d.name == "Unmarshal" {
					v.Classes = append(v.Classes, "map-of-maps-target")
				}
				targets = append(targets, func() any { m := map[string]map[string]any{}; return &m })
			}
		}
		if want.K == ref.KArr {
			targets = append(targets, func() any { var s []any; return &s })
		}
		for ti, mk := range targets {
			into := mk()
			var keys []string
			var derr error
			if pn := ev.Safe(func() { keys, derr = d.f(into) }); pn != nil {
				return ev.Verdict{Err: fmt.Errorf("%s: %w", d.name, pn)}
			}
			if derr != nil {
				v.Err = fmt.Errorf("%s rejected a well-formed text: %v", d.name, derr)
				return v
			}
			if keys != nil {
				keptKeys = append(keptKeys, [2][]string{keys, append([]string{}, keys...)})
			}
			var val any
			switch p := into.(type) {
			case *any:
				val = *p
			case *map[string]any:
				val = *p
			case *map[string]map[string]any:
				m := map[string]any{}
				for k, x := range *p {
					m[k] = map[string]any(x)
				}
				val = m
			case *[]any:
				val = *p
				if *p == nil {
					val = []any{}
				}
			}
			got, cerr := fromAny(val)
			if cerr != nil {
				v.Err = fmt.Errorf("%s: %v", d.name, cerr)
				return v
			}
			if !ref.Equal(got, want) {
				v.Err = fmt.Errorf("%s (target %d) decoded a different value\n got:  %s\n want: %s", d.name, ti, got, want)
				return v
			}
			// key list: for an object decoded into a map type
			if ti >= 1 && want.K == ref.KObj && (d.name == "UnmarshalWithKeys" || d.name == "UnmarshalValidWithKeys") {
				wk := uniqueKeys(want)
				if fmt.Sprintf("%q", keys) != fmt.Sprintf("%q", wk) && !(len(keys) == 0 && len(wk) == 0) {
					v.Err = fmt.Errorf("%s reports keys %q, the document order is %q", d.name, keys, wk)
					return v
				}
				if len(wk) >= 2 {
					v.NonTrivial = true
				}
			}
			// encode again, three ways
			for _, enc := range []struct {
				name string
				f    func() ([]byte, error)
			}{
				{"Marshal", func() ([]byte, error) { return fj.Marshal(val) }},
				{"MarshalEscaped(true)", func() ([]byte, error) { return fj.MarshalEscaped(val, true) }},
				{"MarshalEscaped(false)", func() ([]byte, error) { return fj.MarshalEscaped(val, false) }},
				{"MarshalIndent", func() ([]byte, error) { return fj.MarshalIndent(val, "", "\t") }},
			} {
				var out []byte
				var eerr error
				if pn := ev.Safe(func() { out, eerr = enc.f() }); pn != nil {
					return ev.Verdict{Err: fmt.Errorf("%s: %w", enc.name, pn)}
				}
				if eerr != nil {
					v.Err = fmt.Errorf("%s failed on a decoded value: %v", enc.name, eerr)
					return v
				}
				kept = append(kept, held{enc.name, out, append([]byte{}, out...)})
				back, perr := ref.Parse(out)
				if perr != nil {
					v.Err = fmt.Errorf("%s wrote ill-formed JSON %q: %v", enc.name, out, perr)
					return v
				}
				if !ref.Equal(back, want) {
					v.Err = fmt.Errorf("%s after %s does not reproduce the value\n got:  %s\n want: %s", enc.name, d.name, out, want)
					return v
				}
				if enc.name == "MarshalEscaped(true)" || enc.name == "Marshal" {
					if bytes.ContainsAny(out, "<>&") {
						v.Err = fmt.Errorf("%s left <, > or & unescaped: %s", enc.name, out)
						return v
					}
				}
			}
		}
	}
	return v
}

// htmlEscapeRef replaces the five characters inside a JSON text, byte-exact.
func htmlEscapeRef(src []byte) []byte {
	var out []byte
	for i := 0; i < len(src); i++ {
		c := src[i]
		switch {
		case c == '<' || c == '>' || c == '&':
			out = append(out, fmt.Sprintf(`\u%04x`, c)...)
		case c == 0xE2 && i+2 < len(src) && src[i+1] == 0x80 && src[i+2]&^1 == 0xA8:
			out = append(out, fmt.Sprintf(`\u202%x`, src[i+2]&0xF)...)
			i += 2
		default:
			out = append(out, c)
		}
	}
	return out
}

func checkTransforms(c TextCase) ev.Verdict {
	if !ref.Valid(c.Text) {
		return ev.Excluded("not well-formed (C16)")
	}
	v := ev.Verdict{NonTrivial: !bytes.Equal(ref.StripWS(c.Text), c.Text) || bytes.ContainsAny(c.Text, "<>&")}
	var cb, ib, hb, sb, shb, scb bytes.Buffer
	ind := []string{" ", "\t", "  "}[len(c.Text)%3]
	var e1, e2, e3, e4 error
	if pn := ev.Safe(func() {
		e1 = fj.Compact(&cb, c.Text)
		e2 = fj.Indent(&ib, c.Text, "", ind)
		fj.HTMLEscape(&hb, c.Text)
	}); pn != nil {
		return ev.Verdict{Err: pn}
	}
	e3 = stdjson.Indent(&sb, c.Text, "", ind)
	stdjson.HTMLEscape(&shb, c.Text)
	e4 = stdjson.Compact(&scb, c.Text)
	switch {
	case e1 != nil || e2 != nil || e3 != nil || e4 != nil:
		v.Err = fmt.Errorf("Compact/Indent failed on a well-formed text: %v %v (std: %v %v)", e1, e2, e3, e4)
	case !bytes.Equal(cb.Bytes(), ref.StripWS(c.Text)):
		v.Err = fmt.Errorf("Compact is not the input minus insignificant whitespace\n got:  %q\n want: %q", cb.Bytes(), ref.StripWS(c.Text))
	case !bytes.Equal(cb.Bytes(), scb.Bytes()):
		v.Err = fmt.Errorf("Compact differs from encoding/json.Compact\n fork: %q\n std:  %q", cb.Bytes(), scb.Bytes())
	case !bytes.Equal(ref.StripWS(ib.Bytes()), cb.Bytes()):
		v.Err = fmt.Errorf("Indent changed more than whitespace\n indent: %q\n compact: %q", ib.Bytes(), cb.Bytes())
	case !bytes.Equal(ib.Bytes(), sb.Bytes()):
		v.Err = fmt.Errorf("Indent differs from encoding/json.Indent\n fork: %q\n std:  %q", ib.Bytes(), sb.Bytes())
	case !bytes.Equal(hb.Bytes(), htmlEscapeRef(c.Text)):
		v.Err = fmt.Errorf("HTMLEscape is not the input with the five characters replaced\n got:  %q\n want: %q", hb.Bytes(), htmlEscapeRef(c.Text))
	case !bytes.Equal(hb.Bytes(), shb.Bytes()):
		v.Err = fmt.Errorf("HTMLEscape differs from encoding/json.HTMLEscape\n fork: %q\n std:  %q", hb.Bytes(), shb.Bytes())
	}
	return v
}

var (
	rtUnit = ev.Unit[TextCase]{Name: "round-trip", Draw: drawText, Check: checkRoundTrip,
		Rule: "generated JSON texts in arbitrary spelling (numbers beyond float64, escapes of every form, control and non-BMP characters, lone surrogates) decoded with Unmarshal, UnmarshalWithKeys, UnmarshalValid, UnmarshalValidWithKeys into any / map[string]any / []any / (an object of objects) map[string]map[string]any, re-encoded with Marshal, MarshalEscaped(true/false), MarshalIndent and read back by the independent reader; oracle: value Equal (number literals, code points, nesting, array order), key list = member names in document order for map targets, no raw <,>,& with escaping on; every returned byte slice and key list still holds its content after all later codec calls of the case; non-trivial = a number longer than 15 characters or an escape sequence in the text, or an object with >= 2 keys checked for order"}
	trUnit = ev.Unit[TextCase]{Name: "transforms", Draw: drawText, Check: checkTransforms,
		Rule: "the same texts through Compact, Indent and HTMLEscape; oracle: Compact = input with whitespace outside strings removed (independent tokenizer) = encoding/json.Compact; Indent minus whitespace = Compact and = encoding/json.Indent byte for byte; HTMLEscape = input with <,>,&,U+2028,U+2029 replaced, byte-exact = encoding/json.HTMLEscape; non-trivial = text holds insignificant whitespace or one of <,>,&"}
)

func TestPropRoundTrip(t *testing.T)  { ev.RunProp(t, "C17", rtUnit) }
func TestPropTransforms(t *testing.T) { ev.RunProp(t, "C17", trUnit) }
