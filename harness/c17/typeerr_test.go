package c17

// Typed decodes into named Go types that meet values of the wrong JSON type:
// the fork reports what encoding/json reports - the same decoded value (both
// keep going after a type error) and the same first UnmarshalTypeError
// (Value, Type, Offset, Struct, Field, and therefore the same text).
// reflect.StructOf types have no name, so the Struct half of the error context
// is only observable with declared types.

import (
	stdjson "encoding/json"
	"fmt"
	"reflect"
	"runtime"
	"strings"
	"testing"

	fj "github.com/evanphx/json-patch/v5/internal/json"
	"github.com/evanphx/json-patch/v5/xverif/ev"
	"github.com/evanphx/json-patch/v5/xverif/gen"
	"github.com/evanphx/json-patch/v5/xverif/ref"
	"pgregory.net/rapid"
)

type NItem struct {
	A int8     `json:"a"`
	B string   `json:"b"`
	C *NItem   `json:"c,omitempty"`
	D []uint16 `json:"d"`
	F float32
	G bool `json:"g,string"`
}

type NEmb struct {
	X int     `json:"x"`
	Y []NItem `json:"y"`
}

type NBox struct {
	Title string           `json:"title"`
	Items []NItem          `json:"items"`
	Index map[string]NItem `json:"index"`
	One   NItem            `json:"one"`
	P     *NBox            `json:"p"`
	NEmb
	Pair [2]NItem           `json:"pair"`
	Any  any                `json:"any"`
	M    map[string][]NItem `json:"m"`
}

var errTargets = []struct {
	name string
	ty   reflect.Type
}{
	{"NBox", reflect.TypeOf(NBox{})},
	{"[]NItem", reflect.TypeOf([]NItem{})},
	{"map[string]NItem", reflect.TypeOf(map[string]NItem{})},
	{"[2]NItem", reflect.TypeOf([2]NItem{})},
	{"[]*NBox", reflect.TypeOf([]*NBox{})},
	{"map[string][]NItem", reflect.TypeOf(map[string][]NItem{})},
	{"NItem", reflect.TypeOf(NItem{})},
}

type TypeErrCase struct {
	Target string `json:"target"`
	Input  string `json:"input"`
	// Then: a second text decoded into the SAME target afterwards (what the
	// target already holds - members of maps, fields of structs, elements of a
	// backing array beyond a slice's length - is part of what Unmarshal works
	// with); Cut: every slice in the target is first cut to half its length,
	// the recycling idiom buf = buf[:n].
	Then string `json:"then,omitempty"`
	Cut  bool   `json:"cut_slices,omitempty"`
}

// cutSlices halves the length of every slice reachable from v (capacity and backing array stay).
func cutSlices(v reflect.Value) {
	switch v.Kind() {
	case reflect.Pointer, reflect.Interface:
		if !v.IsNil() {
			cutSlices(v.Elem())
		}
	case reflect.Struct:
		for i := 0; i < v.NumField(); i++ {
			cutSlices(v.Field(i))
		}
	case reflect.Array:
		for i := 0; i < v.Len(); i++ {
			cutSlices(v.Index(i))
		}
	case reflect.Slice:
		for i := 0; i < v.Len(); i++ {
			cutSlices(v.Index(i))
		}
		if v.CanSet() && v.Len() > 0 {
			v.SetLen(v.Len() / 2)
		}
	}
}

// shaped draws a JSON value that fits ty; with probability 1/odds a node is
// replaced by a value of another JSON type (or a number the Go type cannot hold).
func shaped(t *rapid.T, ty reflect.Type, depth int, odds int, wrong *int) *ref.V {
	if odds > 0 && gen.OneIn(t, odds, "wrong") {
		*wrong++
		switch gen.Uniform(t, 0, 7, "wk") {
		case 0:
			return ref.Num("5")
		case 1:
			return ref.Str("oops")
		case 2:
			return ref.Bool(true)
		case 3:
			return ref.Arr()
		case 4:
			return ref.Obj()
		case 5:
			return ref.Num(rapid.SampledFrom([]string{"300", "-1", "1.5", "1e40", "70000", "-129"}).Draw(t, "wn"))
		case 6:
			return ref.Arr(ref.Num("1"), ref.Str("x"))
		default:
			return ref.ObjOf("a", ref.Str("no"), "zz", ref.Num("1"))
		}
	}
	switch ty.Kind() {
	case reflect.Bool:
		return ref.Bool(rapid.Bool().Draw(t, "b"))
	case reflect.Int8:
		return ref.Num(fmt.Sprint(gen.Uniform(t, -128, 127, "i8")))
	case reflect.Int:
		return ref.Num(fmt.Sprint(gen.Uniform(t, -1000, 1000, "i")))
	case reflect.Uint16:
		return ref.Num(fmt.Sprint(gen.Uniform(t, 0, 65535, "u16")))
	case reflect.Float32:
		return ref.Num(rapid.SampledFrom([]string{"0", "1.5", "-2e3", "1e-7", "12"}).Draw(t, "f"))
	case reflect.String:
		return ref.Str(rapid.SampledFrom([]string{"", "x", "é", "a b"}).Draw(t, "s"))
	case reflect.Interface:
		return gen.Default.Value(1).Draw(t, "anyv")
	case reflect.Pointer:
		if depth <= 0 || gen.OneIn(t, 3, "nilp") {
			return ref.Null()
		}
		return shaped(t, ty.Elem(), depth-1, odds, wrong)
	case reflect.Slice, reflect.Array:
		n := gen.Uniform(t, 0, 3, "n")
		if ty.Kind() == reflect.Array {
			n = gen.Uniform(t, 1, 3, "na")
		}
		if depth <= 0 {
			n = 0
		}
		a := ref.Arr()
		for i := 0; i < n; i++ {
			a.Arr = append(a.Arr, shaped(t, ty.Elem(), depth-1, odds, wrong))
		}
		return a
	case reflect.Map:
		o := ref.Obj()
		if depth <= 0 {
			return o
		}
		n := gen.Uniform(t, 0, 3, "nm")
		for i := 0; i < n; i++ {
			o.Set(fmt.Sprintf("k%d", i), shaped(t, ty.Elem(), depth-1, odds, wrong))
		}
		return o
	case reflect.Struct:
		o := ref.Obj()
		var fill func(st reflect.Type)
		fill = func(st reflect.Type) {
			for i := 0; i < st.NumField(); i++ {
				f := st.Field(i)
				if f.Anonymous {
					fill(f.Type)
					continue
				}
				if gen.OneIn(t, 3, "skipf") {
					continue
				}
				name := f.Name
				tag := f.Tag.Get("json")
				if p := strings.Split(tag, ",")[0]; p != "" {
					name = p
				}
				if depth <= 0 && (f.Type.Kind() == reflect.Struct || f.Type.Kind() == reflect.Pointer) {
					continue
				}
				if strings.Contains(tag, ",string") {
					if odds > 0 && gen.OneIn(t, odds, "wrongq") {
						*wrong++
						o.Set(name, rapid.SampledFrom([]*ref.V{ref.Bool(true), ref.Str("maybe"), ref.Num("1")}).Draw(t, "wq"))
					} else {
						o.Set(name, ref.Str(fmt.Sprint(rapid.Bool().Draw(t, "qb"))))
					}
					continue
				}
				o.Set(name, shaped(t, f.Type, depth-1, odds, wrong))
			}
		}
		fill(ty)
		if gen.OneIn(t, 6, "unknown") {
			o.Set("unknown", ref.Arr(ref.Num("1")))
		}
		return o
	}
	return ref.Null()
}

func drawTypeErr(t *rapid.T) TypeErrCase {
	i := gen.Uniform(t, 0, len(errTargets)-1, "target")
	wrong := 0
	odds := rapid.SampledFrom([]int{0, 4, 8, 20}).Draw(t, "odds")
	v := shaped(t, errTargets[i].ty, 4, odds, &wrong)
	txt := v.Text(false)
	if gen.OneIn(t, 4, "spell") {
		txt = gen.Spell(t, v, "sp")
	}
	c := TypeErrCase{Target: errTargets[i].name, Input: txt}
	if gen.OneIn(t, 3, "then") {
		w2 := 0
		c.Then = shaped(t, errTargets[i].ty, 4, rapid.SampledFrom([]int{0, 0, 8}).Draw(t, "odds2"), &w2).Text(false)
		c.Cut = rapid.Bool().Draw(t, "cut")
	}
	return c
}

func typeErrDetail(err error) string {
	switch e := err.(type) {
	case *fj.UnmarshalTypeError:
		return fmt.Sprintf("Value=%q Type=%v Offset=%d Struct=%q Field=%q text=%q", e.Value, e.Type, e.Offset, e.Struct, e.Field, e.Error())
	case *stdjson.UnmarshalTypeError:
		return fmt.Sprintf("Value=%q Type=%v Offset=%d Struct=%q Field=%q text=%q", e.Value, e.Type, e.Offset, e.Struct, e.Field, e.Error())
	}
	return ""
}

// typeErrDetailIf: the details, when they are comparable under this toolchain.
func typeErrDetailIf(err error) string {
	if !strings.HasPrefix(runtime.Version(), "go1.23") {
		return ""
	}
	return typeErrDetail(err)
}

func checkTypeErr(c TypeErrCase) ev.Verdict {
	var ty reflect.Type
	for _, tg := range errTargets {
		if tg.name == c.Target {
			ty = tg.ty
		}
	}
	if ty == nil {
		return ev.Excluded("unknown target type")
	}
	if !ref.Valid([]byte(c.Input)) {
		return ev.Excluded("input not well-formed (C16)")
	}
	pv1, pv2 := reflect.New(ty), reflect.New(ty)
	var e1, e2 error
	p1 := ev.Safe(func() { e1 = fj.Unmarshal([]byte(c.Input), pv1.Interface()) })
	p2 := ev.Safe(func() {
		d := stdjson.NewDecoder(strings.NewReader(c.Input))
		d.UseNumber() // the fork always decodes numbers in interface values as Number
		e2 = d.Decode(pv2.Interface())
	})
	v := ev.Verdict{Classes: []string{"target=" + c.Target, "error=" + errType(e1)}}
	if p1 != nil || p2 != nil {
		if (p1 == nil) != (p2 == nil) {
			v.Err = fmt.Errorf("Unmarshal panics in one implementation only\n fork: %v\n std:  %v", p1, p2)
			return v
		}
		return ev.Excluded("both implementations panic", "both-panic")
	}
	if errType(e1) != errType(e2) {
		v.Err = fmt.Errorf("Unmarshal error differs\n fork: %v (%s)\n std:  %v (%s)", e1, errType(e1), e2, errType(e2))
		return v
	}
	if n1, n2 := norm(pv1.Elem()), norm(pv2.Elem()); !reflect.DeepEqual(n1, n2) {
		v.Err = fmt.Errorf("decoded values differ\n fork: %+v\n std:  %+v", n1, n2)
		return v
	}
	if c.Then != "" && ref.Valid([]byte(c.Then)) {
		v.Classes = append(v.Classes, fmt.Sprintf("second-decode-into-same-target/cut=%v", c.Cut))
		if c.Cut {
			cutSlices(pv1.Elem())
			cutSlices(pv2.Elem())
		}
		var t1, t2 error
		q1 := ev.Safe(func() { t1 = fj.Unmarshal([]byte(c.Then), pv1.Interface()) })
		q2 := ev.Safe(func() {
			d := stdjson.NewDecoder(strings.NewReader(c.Then))
			d.UseNumber()
			t2 = d.Decode(pv2.Interface())
		})
		if q1 != nil || q2 != nil {
			if (q1 == nil) != (q2 == nil) {
				v.Err = fmt.Errorf("second Unmarshal into the same target panics in one implementation only\n fork: %v\n std:  %v", q1, q2)
			}
			return v
		}
		if errType(t1) != errType(t2) || typeErrDetailIf(t1) != typeErrDetailIf(t2) {
			v.Err = fmt.Errorf("second Unmarshal into the same target: error differs\n fork: %v (%s)\n std:  %v (%s)", t1, errType(t1), t2, errType(t2))
			return v
		}
		if n1, n2 := norm(pv1.Elem()), norm(pv2.Elem()); !reflect.DeepEqual(n1, n2) {
			v.Err = fmt.Errorf("second Unmarshal into the same target (slices cut: %v): values differ\n fork: %+v\n std:  %+v", c.Cut, n1, n2)
			return v
		}
		// did the target's earlier contents matter? (measured on the standard library's side)
		fresh := reflect.New(ty)
		d := stdjson.NewDecoder(strings.NewReader(c.Then))
		d.UseNumber()
		_ = d.Decode(fresh.Interface())
		if !reflect.DeepEqual(norm(fresh.Elem()), norm(pv2.Elem())) {
			v.Classes = append(v.Classes, fmt.Sprintf("second-decode-keeps-earlier-data/cut=%v", c.Cut))
		}
	}
	d1, d2 := typeErrDetail(e1), typeErrDetail(e2)
	v.NonTrivial = d1 != ""
	if d1 != "" {
		if te := e1.(*fj.UnmarshalTypeError); te.Struct != "" {
			v.Classes = append(v.Classes, "struct-context")
		} else {
			v.Classes = append(v.Classes, "no-struct-context")
		}
	}
	if !strings.HasPrefix(runtime.Version(), "go1.23") {
		// the reference for error details is the encoding/json this was measured against
		v.Classes = append(v.Classes, "details-not-compared(other toolchain)")
		return v
	}
	if d1 != d2 {
		v.Err = fmt.Errorf("the first type error is described differently\n fork: %s\n std:  %s", d1, d2)
	}
	return v
}

var typeErrUnit = ev.Unit[TypeErrCase]{
	Name: "type-errors-vs-stdlib",
	Rule: "declared struct types (tags, omitempty, string option, embedding, pointers, arrays, maps and slices of structs, an interface field) x well-formed inputs drawn to fit the type with 0, 1/4, 1/8 or 1/20 of the nodes replaced by a value of another JSON type or a number the Go type cannot hold; oracle: encoding/json - same decoded value after the error, same error type, and for UnmarshalTypeError the same Value, Type, Offset, Struct, Field and text; one case in three decodes a second fitting text into the same target afterwards (half of those after cutting every slice in the target to half its length), with the same comparison; non-trivial = a type error is reported",
	Draw: drawTypeErr, Check: checkTypeErr,
}

func TestPropTypeErrors(t *testing.T) { ev.RunProp(t, "C17", typeErrUnit) }
