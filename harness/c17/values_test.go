package c17

import (
	"bytes"
	stdjson "encoding/json"
	"fmt"
	"math"
	"reflect"
	"testing"

	fj "github.com/evanphx/json-patch/v5/internal/json"
	"github.com/evanphx/json-patch/v5/xverif/ev"
	"github.com/evanphx/json-patch/v5/xverif/gen"
	"pgregory.net/rapid"
)

// ValueCase: a Go value built directly (not by decoding a text): a generated
// type and a tape of choices from which the value is filled in
// deterministically. This reaches what no decoded value has: strings with
// arbitrary bytes, floats that format with exponents, infinities and NaN, nil
// versus empty slices and maps, nil pointers, long byte slices.
type ValueCase struct {
	Type TypeDesc `json:"type"`
	Tape []uint64 `json:"tape"`
}

type tape struct {
	t []uint64
	i int
}

func (tp *tape) next() uint64 {
	if len(tp.t) == 0 {
		return 0
	}
	v := tp.t[tp.i%len(tp.t)]
	tp.i++
	return v
}

var floatPool = []float64{0, math.Copysign(0, -1), 1, -1, 1.5, 0.1, 1e-7, 1e-6, 9.999999e-7, 1e20, 1e21, 1.2345e21, 1e-320, 5e-324, math.MaxFloat64, math.MaxFloat32, math.SmallestNonzeroFloat32,
	16777217, 9007199254740993, 123456789.125, math.Inf(1), math.Inf(-1), math.NaN(), 3.4028235e38, 1e-45, 100, 1e5, 123456789012345678}
var intPool = []int64{0, 1, -1, 127, 128, -128, -129, 255, 256, 32767, 32768, 65535, 65536, math.MaxInt32, math.MinInt32, math.MaxInt64, math.MinInt64, 42}
var strPool = []string{"", "a", "x y", "é", "<&>", "q\"uote", "back\\slash", "C:\\", "line\nfeed", "cr\rlf", "tab\t", "\x00\x01\x1f", "\x7f", "\b\f", "\u2028\u2029", "😀", "\U0001F3FF", "\xff", "a\xffb", "\xc3", "\xe2\x80", "\xed\xa0\x80",
	"\xf4\x90\x80\x80", "\xff\xff\xff\xff\xff\xff", "&lt;", "</script>", "\ufffd", "é\xffé", "null", "1", "true", "\"", "%d", "ſK"}

func fill(v reflect.Value, tp *tape, depth int) {
	switch v.Kind() {
	case reflect.Bool:
		v.SetBool(tp.next()%2 == 1)
	case reflect.Int, reflect.Int8, reflect.Int16, reflect.Int32, reflect.Int64:
		x := intPool[tp.next()%uint64(len(intPool))]
		if v.OverflowInt(x) {
			x = int64(int8(x))
		}
		v.SetInt(x)
	case reflect.Uint, reflect.Uint8, reflect.Uint16, reflect.Uint32, reflect.Uint64:
		x := uint64(intPool[tp.next()%uint64(len(intPool))])
		if tp.next()%7 == 0 {
			x = math.MaxUint64
		}
		if v.OverflowUint(x) {
			x = uint64(uint8(x))
		}
		v.SetUint(x)
	case reflect.Float32, reflect.Float64:
		v.SetFloat(floatPool[tp.next()%uint64(len(floatPool))])
	case reflect.String:
		s := strPool[tp.next()%uint64(len(strPool))]
		if tp.next()%9 == 0 {
			s += strPool[tp.next()%uint64(len(strPool))]
		}
		v.SetString(s)
	case reflect.Interface:
		switch tp.next() % 8 {
		case 0:
		case 1:
			v.Set(reflect.ValueOf(tp.next()%2 == 0))
		case 2:
			v.Set(reflect.ValueOf(floatPool[tp.next()%uint64(len(floatPool))]))
		case 3:
			v.Set(reflect.ValueOf(strPool[tp.next()%uint64(len(strPool))]))
		case 4:
			v.Set(reflect.ValueOf(int(intPool[tp.next()%uint64(len(intPool))])))
		case 5:
			if depth > 0 {
				m := map[string]any{}
				for i, n := 0, int(tp.next()%3); i < n; i++ {
					var e any
					ev := reflect.ValueOf(&e).Elem()
					fill(ev, tp, depth-1)
					m[strPool[tp.next()%uint64(len(strPool))]] = e
				}
				v.Set(reflect.ValueOf(m))
			}
		case 6:
			if depth > 0 {
				s := []any{}
				for i, n := 0, int(tp.next()%3); i < n; i++ {
					var e any
					ev := reflect.ValueOf(&e).Elem()
					fill(ev, tp, depth-1)
					s = append(s, e)
				}
				v.Set(reflect.ValueOf(s))
			}
		case 7:
			v.Set(reflect.ValueOf([]byte(strPool[tp.next()%uint64(len(strPool))])))
		}
	case reflect.Slice:
		k := tp.next() % 6
		if k == 0 {
			return // nil slice
		}
		n := int(k) - 1
		if v.Type().Elem().Kind() == reflect.Uint8 && tp.next()%5 == 0 {
			n = []int{766, 767, 768, 769, 1023, 1024, 1025, 3000}[tp.next()%8] // around the encoder's base64 size classes
		}
		if depth <= 0 && n > 2 && v.Type().Elem().Kind() != reflect.Uint8 {
			n = 2
		}
		v.Set(reflect.MakeSlice(v.Type(), n, n))
		for i := 0; i < n; i++ {
			fill(v.Index(i), tp, depth-1)
		}
	case reflect.Array:
		for i := 0; i < v.Len(); i++ {
			fill(v.Index(i), tp, depth-1)
		}
	case reflect.Map:
		k := tp.next() % 5
		if k == 0 {
			return // nil map
		}
		v.Set(reflect.MakeMap(v.Type()))
		for i := 0; i < int(k)-1; i++ {
			kv := reflect.New(v.Type().Key()).Elem()
			fill(kv, tp, 0)
			ev := reflect.New(v.Type().Elem()).Elem()
			fill(ev, tp, depth-1)
			v.SetMapIndex(kv, ev)
		}
	case reflect.Pointer:
		if tp.next()%3 == 0 || depth <= 0 {
			return // nil pointer
		}
		p := reflect.New(v.Type().Elem())
		fill(p.Elem(), tp, depth-1)
		v.Set(p)
	case reflect.Struct:
		switch v.Type() {
		case reflect.TypeOf(textM{}):
			v.Field(0).SetString([]string{"a", "", "!no", "<&>", "\xff", "T:x"}[tp.next()%6])
			return
		case reflect.TypeOf(jsonM{}):
			v.Field(0).SetString([]string{"", "1", " { \"a\" : [ 1 , 2 ] } ", "\"<&>\"", "nul", "{", "[1,]", "\"\\u2028\"", "1 2"}[tp.next()%9])
			return
		}
		for i := 0; i < v.NumField(); i++ {
			if v.Type().Field(i).IsExported() && v.Field(i).CanSet() {
				fill(v.Field(i), tp, depth-1)
			}
		}
	}
}

func drawValue(t *rapid.T) ValueCase {
	d := genType(t, 3, "T")
	if gen.OneIn(t, 12, "chain") {
		d = embedChain(t)
	}
	n := gen.Uniform(t, 8, 64, "tapelen")
	tp := make([]uint64, n)
	for i := range tp {
		tp[i] = uint64(gen.Uniform(t, 0, 1<<16-1, "tape"))
	}
	return ValueCase{Type: d, Tape: tp}
}

func checkValue(c ValueCase) ev.Verdict {
	ty, err := c.Type.build()
	if err != nil {
		return ev.Excluded("type cannot be built with reflect: "+firstWord(err.Error()), "unbuildable-type")
	}
	if len(c.Tape) > 4096 {
		return ev.Excluded("tape too long")
	}
	pv := reflect.New(ty)
	if pn := ev.Safe(func() { fill(pv.Elem(), &tape{t: c.Tape}, 4) }); pn != nil {
		return ev.Excluded("value cannot be built for this type", "unfillable")
	}
	val := pv.Interface()
	v := ev.Verdict{Classes: []string{"root=" + c.Type.Kind}}
	stdEnc := func(escape bool, indent string) func() ([]byte, error) {
		return func() ([]byte, error) {
			var buf bytes.Buffer
			e := stdjson.NewEncoder(&buf)
			e.SetEscapeHTML(escape)
			if indent != "" {
				e.SetIndent("", indent)
			}
			err := e.Encode(val)
			return bytes.TrimSuffix(buf.Bytes(), []byte("\n")), err
		}
	}
	var okBytes []byte
	for _, e := range []struct {
		name string
		fork func() ([]byte, error)
		std  func() ([]byte, error)
	}{
		{"Marshal", func() ([]byte, error) { return fj.Marshal(val) }, func() ([]byte, error) { return stdjson.Marshal(val) }},
		{"MarshalEscaped(false)", func() ([]byte, error) { return fj.MarshalEscaped(val, false) }, stdEnc(false, "")},
		{"MarshalEscaped(true)", func() ([]byte, error) { return fj.MarshalEscaped(val, true) }, stdEnc(true, "")},
		{"MarshalIndent", func() ([]byte, error) { return fj.MarshalIndent(val, ">", "\t") }, func() ([]byte, error) { return stdjson.MarshalIndent(val, ">", "\t") }},
		{"MarshalIndent(\"\",\"\")", func() ([]byte, error) { return fj.MarshalIndent(val, "", "") }, func() ([]byte, error) { return stdjson.MarshalIndent(val, "", "") }},
		{"MarshalIndent(prefix only)", func() ([]byte, error) { return fj.MarshalIndent(val, "  ", "") }, func() ([]byte, error) { return stdjson.MarshalIndent(val, "  ", "") }},
	} {
		var m1, m2 []byte
		var e1, e2 error
		q1 := ev.Safe(func() { m1, e1 = e.fork() })
		q2 := ev.Safe(func() { m2, e2 = e.std() })
		if (q1 == nil) != (q2 == nil) {
			v.Err = fmt.Errorf("%s panics in one implementation only\n fork: %v\n std:  %v\n type: %v", e.name, q1, q2, ty)
			return v
		}
		if q1 != nil {
			return ev.Excluded("both implementations panic", "both-panic")
		}
		if errType(e1) != errType(e2) {
			v.Err = fmt.Errorf("%s error differs\n fork: %v\n std:  %v\n type: %v", e.name, e1, e2, ty)
			return v
		}
		if e1 != nil {
			v.Classes = append(v.Classes, "marshal-error")
			continue
		}
		if !bytes.Equal(normBF(m1), normBF(m2)) {
			v.Err = fmt.Errorf("%s output differs\n fork: %s\n std:  %s\n type: %v", e.name, m1, m2, ty)
			return v
		}
		if e.name == "Marshal" {
			okBytes = m1
		}
	}
	if okBytes != nil {
		// and back: both decoders on the fork's own output
		b1, b2 := reflect.New(ty), reflect.New(ty)
		var d1, d2 error
		p1 := ev.Safe(func() { d1 = fj.Unmarshal(okBytes, b1.Interface()) })
		p2 := ev.Safe(func() {
			d := stdjson.NewDecoder(bytes.NewReader(okBytes))
			d.UseNumber()
			d2 = d.Decode(b2.Interface())
		})
		if (p1 == nil) != (p2 == nil) || (p1 == nil && errType(d1) != errType(d2)) {
			v.Err = fmt.Errorf("decoding the encoder's own output differs\n fork: %v %v\n std:  %v %v\n text: %s", p1, d1, p2, d2, okBytes)
			return v
		}
		if p1 == nil && !reflect.DeepEqual(norm(b1.Elem()), norm(b2.Elem())) {
			v.Err = fmt.Errorf("decoding the encoder's own output gives different values\n fork: %v\n std:  %v\n text: %s", norm(b1.Elem()), norm(b2.Elem()), okBytes)
			return v
		}
		v.NonTrivial = len(okBytes) > 4
	}
	return v
}

func firstWord(s string) string {
	for i, c := range s {
		if c == ':' {
			return s[:i]
		}
	}
	return s
}

var valueUnit = ev.Unit[ValueCase]{
	Name: "values-vs-stdlib",
	Rule: "Go values built directly from a generated type (as types-vs-stdlib, incl. the hook types and embedding chains) and a tape of choices: strings with arbitrary bytes (invalid UTF-8 of every flavour, CR, C0, U+2028), floats that format with exponents, denormals, MaxFloat32/64, infinities and NaN, integer extremes, nil vs empty slices and maps, nil pointers, byte slices around the encoder's size classes (766-1025, 3000), any-typed holes filled with scalars/maps/slices/[]byte; oracle: Marshal, MarshalEscaped(true/false), MarshalIndent(prefix, indent) give encoding/json's error type and bytes (after normalising \\b \\f), and decoding the encoder's own output gives encoding/json's values; non-trivial = the value encodes to more than 4 bytes",
	Draw: drawValue, Check: checkValue,
}

func TestPropValues(t *testing.T) { ev.RunProp(t, "C17", valueUnit) }
