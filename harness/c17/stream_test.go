package c17

import (
	"bytes"
	"errors"
	stdjson "encoding/json"
	"fmt"
	"io"
	"reflect"
	"runtime"
	"strings"
	"testing"

	fj "github.com/evanphx/json-patch/v5/internal/json"
	"github.com/evanphx/json-patch/v5/xverif/ev"
	"github.com/evanphx/json-patch/v5/xverif/gen"
	"github.com/evanphx/json-patch/v5/xverif/ref"
	"pgregory.net/rapid"
)

type StreamCase struct {
	Stream []byte `json:"stream"`
	Chunk  int    `json:"chunk"`  // reader hands out at most this many bytes per Read
	Mode   string `json:"mode"`   // "decode", "token", "mixed", "encode"
	Indent string `json:"indent"` // encoder indent
	Escape bool   `json:"escape_html"`
	// EOFWithData: the reader returns io.EOF together with its last bytes (as
	// HTTP bodies and iotest.DataErrReader do) instead of in a separate empty Read.
	EOFWithData bool `json:"eof_with_data,omitempty"`
	// Stall: before every Read that delivers data the reader returns (0, nil)
	// this many times ("nothing happened", which io.Reader allows).
	Stall int `json:"empty_reads,omitempty"`
	// FailAfter > 0: once that many bytes have been delivered the reader fails with errBoom instead of going on.
	FailAfter int `json:"fail_after,omitempty"`
}

var errBoom = errors.New("boom: the source failed")

type chunkReader struct {
	b       []byte
	n       int
	eofData bool
	stall   int
	fail    int
	stalled int
	given   int
}

func (r *chunkReader) Read(p []byte) (int, error) {
	if r.fail > 0 && r.given >= r.fail {
		return 0, errBoom
	}
	if len(r.b) == 0 {
		return 0, io.EOF
	}
	if r.stalled < r.stall {
		r.stalled++
		return 0, nil
	}
	r.stalled = 0
	n := r.n
	if n > len(p) {
		n = len(p)
	}
	if n > len(r.b) {
		n = len(r.b)
	}
	if r.fail > 0 && r.given+n > r.fail {
		n = r.fail - r.given
	}
	copy(p, r.b[:n])
	r.b = r.b[n:]
	r.given += n
	if r.fail > 0 && r.given >= r.fail && r.eofData {
		// the failure arrives together with the last bytes delivered (as EOF does in this mode)
		return n, errBoom
	}
	if r.eofData && len(r.b) == 0 {
		return n, io.EOF
	}
	return n, nil
}

func drawStream(t *rapid.T) StreamCase {
	n := gen.Uniform(t, 0, 4, "nvals")
	long := gen.OneIn(t, 6, "long")
	if long {
		// streams well beyond the decoder's initial 512-byte buffer (refills, buffer growth)
		n = gen.Uniform(t, 5, 60, "nvalslong")
	}
	var buf bytes.Buffer
	for i := 0; i < n; i++ {
		if long && gen.OneIn(t, 8, "gap") {
			buf.WriteString(strings.Repeat(rapid.SampledFrom([]string{" ", "\n", " \t"}).Draw(t, "gapc"), rapid.SampledFrom([]int{100, 511, 512, 513, 1500, 4096}).Draw(t, "gapn")))
		}
		if gen.OneIn(t, 60, "huge") {
			// one value far beyond any read buffer the decoder would want to keep (64 KiB and more), then more values
			switch gen.Uniform(t, 0, 2, "hugek") {
			case 0:
				buf.WriteString(`"` + strings.Repeat("x", rapid.SampledFrom([]int{65536, 70000, 140000}).Draw(t, "hugen")) + `"`)
			case 1:
				buf.WriteString("[" + strings.Repeat("12345,", rapid.SampledFrom([]int{11000, 24000}).Draw(t, "hugea")) + "0]")
			default:
				buf.WriteString(`{"k":"` + strings.Repeat("y\\n", 30000) + `","z":[1,2]}`)
			}
			buf.WriteString(rapid.SampledFrom([]string{"", " ", "\n"}).Draw(t, "hsep"))
			continue
		}
		v := richCfg.Value(3).Draw(t, "v")
		if gen.OneIn(t, 3, "spell") {
			buf.WriteString(gen.Spell(t, v, "sp"))
		} else {
			buf.WriteString(v.Text(false))
		}
		buf.WriteString(rapid.SampledFrom([]string{"", " ", "\n", "\n\n", "\t", ",", " x"}[:5]).Draw(t, "sep"))
	}
	b := buf.Bytes()
	if gen.OneIn(t, 5, "damage") && len(b) > 0 {
		i := rapid.IntRange(0, len(b)-1).Draw(t, "di")
		switch gen.Uniform(t, 0, 2, "dm") {
		case 0:
			b = b[:i]
		case 1:
			b = append(append(append([]byte{}, b[:i]...), rapid.SampledFrom([]string{",", "x", "]", "}", ":"}).Draw(t, "dc")...), b[i:]...)
		case 2:
			b = append(b[:i:i], b[i+1:]...)
		}
	}
	return StreamCase{
		Stream:      b,
		Chunk:       rapid.SampledFrom([]int{1, 2, 3, 7, 64, 512, 4096}).Draw(t, "chunk"),
		Mode:        rapid.SampledFrom([]string{"decode", "token", "mixed", "typed", "badtarget", "encode"}).Draw(t, "mode"),
		Indent:      rapid.SampledFrom([]string{"", " ", "\t"}).Draw(t, "indent"),
		Escape:      rapid.Bool().Draw(t, "esc"),
		EOFWithData: gen.OneIn(t, 3, "eofdata"),
		Stall:       rapid.SampledFrom([]int{0, 0, 0, 1, 3}).Draw(t, "stall"),
		FailAfter:   failAfter(t, len(b)),
	}
}

// failOnce is a writer whose k-th Write fails with errBoom and writes nothing; all others succeed.
type failOnce struct {
	k, writes int
	buf       bytes.Buffer
}

func (w *failOnce) Write(p []byte) (int, error) {
	w.writes++
	if w.writes == w.k {
		return 0, errBoom
	}
	return w.buf.Write(p)
}

func failAfter(t *rapid.T, n int) int {
	if n < 2 || !gen.OneIn(t, 8, "srcfail") {
		return 0
	}
	return rapid.IntRange(1, n-1).Draw(t, "failafter")
}

func tokNorm(tk any) any {
	switch x := tk.(type) {
	case fj.Delim:
		return "delim:" + x.String()
	case stdjson.Delim:
		return "delim:" + x.String()
	case fj.Number:
		return "num:" + string(x)
	case stdjson.Number:
		return "num:" + string(x)
	}
	return tk
}

// trace runs a decoder through the mode's action script and records everything observable.
// errDetail: the error's dynamic type plus, for type errors (well-formed text,
// wrong Go type), what they carry - compared only under the toolchain the
// agreement was measured with. Offsets of syntax errors are not compared:
// ill-formed texts are outside C17's domain (and on the pinned tree the offset
// reported by Unmarshal drifts from call to call, see DESIGN 9.3).
func errDetail(err error) string {
	s := errType(err)
	if !strings.HasPrefix(runtime.Version(), "go1.23") {
		return s
	}
	switch err.(type) {
	case *fj.UnmarshalTypeError, *stdjson.UnmarshalTypeError:
		return s + " " + typeErrDetail(err)
	}
	return s
}

func traceFork(c StreamCase) (tr []any) {
	d := fj.NewDecoder(&chunkReader{b: c.Stream, n: c.Chunk, eofData: c.EOFWithData, stall: c.Stall, fail: c.FailAfter})
	d.UseNumber()
	for step := 0; step < 200; step++ {
		tr = append(tr, "more", d.More(), "offset", d.InputOffset())
		useTok := c.Mode == "token" || (c.Mode == "mixed" && step%3 != 2) || (c.Mode == "typed" && step%4 == 0)
		if useTok {
			tk, err := d.Token()
			tr = append(tr, "token", tokNorm(tk), errDetail(err))
			if err != nil {
				break
			}
		} else if c.Mode == "badtarget" && step%3 == 1 {
			// a target Decode cannot use: the call fails, the value is consumed all the same, the stream goes on
			var err error
			if step%2 == 0 {
				err = d.Decode(nil)
			} else {
				err = d.Decode(map[string]any{})
			}
			tr = append(tr, "decode-bad-target", errType(err))
			if err != nil && !strings.Contains(errType(err), "InvalidUnmarshalError") {
				break
			}
		} else if c.Mode == "typed" && step%2 == 1 {
			// decode into a type most values do not fit: a type error must leave the stream usable
			var n int8
			err := d.Decode(&n)
			tr = append(tr, "decode-int8", n, errDetail(err))
			if err != nil && errType(err) != "*json.UnmarshalTypeError" {
				break
			}
		} else {
			var v any
			err := d.Decode(&v)
			tr = append(tr, "decode", norm(reflect.ValueOf(&v).Elem()), errDetail(err))
			if err != nil {
				break
			}
			if step == 0 {
				rest, _ := io.ReadAll(d.Buffered())
				tr = append(tr, "buffered", len(rest) <= len(c.Stream))
			}
		}
	}
	return tr
}

func traceStd(c StreamCase) (tr []any) {
	d := stdjson.NewDecoder(&chunkReader{b: c.Stream, n: c.Chunk, eofData: c.EOFWithData, stall: c.Stall, fail: c.FailAfter})
	d.UseNumber()
	for step := 0; step < 200; step++ {
		tr = append(tr, "more", d.More(), "offset", d.InputOffset())
		useTok := c.Mode == "token" || (c.Mode == "mixed" && step%3 != 2) || (c.Mode == "typed" && step%4 == 0)
		if useTok {
			tk, err := d.Token()
			tr = append(tr, "token", tokNorm(tk), errDetail(err))
			if err != nil {
				break
			}
		} else if c.Mode == "badtarget" && step%3 == 1 {
			// a target Decode cannot use: the call fails, the value is consumed all the same, the stream goes on
			var err error
			if step%2 == 0 {
				err = d.Decode(nil)
			} else {
				err = d.Decode(map[string]any{})
			}
			tr = append(tr, "decode-bad-target", errType(err))
			if err != nil && !strings.Contains(errType(err), "InvalidUnmarshalError") {
				break
			}
		} else if c.Mode == "typed" && step%2 == 1 {
			// decode into a type most values do not fit: a type error must leave the stream usable
			var n int8
			err := d.Decode(&n)
			tr = append(tr, "decode-int8", n, errDetail(err))
			if err != nil && errType(err) != "*json.UnmarshalTypeError" {
				break
			}
		} else {
			var v any
			err := d.Decode(&v)
			tr = append(tr, "decode", norm(reflect.ValueOf(&v).Elem()), errDetail(err))
			if err != nil {
				break
			}
			if step == 0 {
				rest, _ := io.ReadAll(d.Buffered())
				tr = append(tr, "buffered", len(rest) <= len(c.Stream))
			}
		}
	}
	return tr
}

func checkStream(c StreamCase) ev.Verdict {
	if c.Chunk < 1 || c.Chunk > 1<<16 || len(c.Stream) > 1<<20 || c.Stall < 0 || c.Stall > 8 || c.FailAfter < 0 {
		return ev.Excluded("chunk/stream size outside the unit")
	}
	v := ev.Verdict{Classes: []string{"mode=" + c.Mode, fmt.Sprintf("empty-reads=%d", c.Stall), fmt.Sprintf("source-fails=%v", c.FailAfter > 0)}}
	if c.Mode == "encode" {
		// values = the well-formed prefix values of the stream, decoded by the standard library
		var vals []any
		d := stdjson.NewDecoder(bytes.NewReader(c.Stream))
		d.UseNumber()
		for {
			var x any
			if err := d.Decode(&x); err != nil {
				break
			}
			vals = append(vals, x)
		}
		var b1, b2 bytes.Buffer
		var e1, e2 error
		if pn := ev.Safe(func() {
			e := fj.NewEncoder(&b1)
			e.SetEscapeHTML(c.Escape)
			e.SetIndent("", c.Indent)
			for _, x := range vals {
				if e1 = e.Encode(x); e1 != nil {
					return
				}
			}
		}); pn != nil {
			return ev.Verdict{Err: pn}
		}
		e := stdjson.NewEncoder(&b2)
		e.SetEscapeHTML(c.Escape)
		e.SetIndent("", c.Indent)
		for _, x := range vals {
			if e2 = e.Encode(x); e2 != nil {
				break
			}
		}
		v.NonTrivial = len(vals) >= 2
		if c.FailAfter > 0 {
			// a writer whose k-th Write fails (once): what every Encode of the sequence returns and
			// what reaches the writer afterwards - an Encoder remembers a failed write
			seq := []any{"a", true, map[string]any{"k": "v<"}, []any{"x", nil}, "tail", false}
			k := 1 + c.FailAfter%len(seq)
			run := func(enc func(v any) error, w *failOnce) []any {
				var tr []any
				for _, x := range seq {
					err := enc(x)
					tr = append(tr, errType(err), w.buf.String(), w.writes)
				}
				return tr
			}
			w1, w2 := &failOnce{k: k}, &failOnce{k: k}
			fe, se := fj.NewEncoder(w1), stdjson.NewEncoder(w2)
			fe.SetEscapeHTML(c.Escape)
			se.SetEscapeHTML(c.Escape)
			fe.SetIndent("", c.Indent)
			se.SetIndent("", c.Indent)
			var t1, t2 []any
			if pn := ev.Safe(func() { t1 = run(fe.Encode, w1) }); pn != nil {
				return ev.Verdict{Err: pn}
			}
			t2 = run(se.Encode, w2)
			v.Classes = append(v.Classes, "encoder-with-a-failing-write")
			if !reflect.DeepEqual(t1, t2) {
				v.Err = fmt.Errorf("Encoder traces differ when Write number %d fails (error, bytes written, number of Write calls after each Encode)\n fork: %v\n std:  %v", k, t1, t2)
				return v
			}
		}
		// json.Number values of the standard library are foreign to the fork (it would quote them):
		// compare through the fork's own decode instead when numbers are present
		hasNum := bytes.ContainsAny(c.Stream, "0123456789")
		if hasNum {
			var vals2 []any
			fd := fj.NewDecoder(bytes.NewReader(c.Stream))
			fd.UseNumber()
			for {
				var x any
				if err := fd.Decode(&x); err != nil {
					break
				}
				vals2 = append(vals2, x)
			}
			b1.Reset()
			fe := fj.NewEncoder(&b1)
			fe.SetEscapeHTML(c.Escape)
			fe.SetIndent("", c.Indent)
			for _, x := range vals2 {
				if e1 = fe.Encode(x); e1 != nil {
					break
				}
			}
		}
		if errType(e1) != errType(e2) || !bytes.Equal(normBF(b1.Bytes()), normBF(b2.Bytes())) {
			v.Err = fmt.Errorf("Encoder output differs (indent %q, escape %v)\n fork: %q %v\n std:  %q %v", c.Indent, c.Escape, b1.Bytes(), e1, b2.Bytes(), e2)
		}
		return v
	}
	var t1, t2 []any
	p1 := ev.Safe(func() { t1 = traceFork(c) })
	p2 := ev.Safe(func() { t2 = traceStd(c) })
	if (p1 == nil) != (p2 == nil) {
		v.Err = fmt.Errorf("Decoder panics in one implementation only\n fork: %v\n std:  %v", p1, p2)
		return v
	}
	if p1 != nil {
		return ev.Excluded("both implementations panic", "both-panic")
	}
	nvals := 0
	for _, x := range t1 {
		if x == "decode" || x == "token" {
			nvals++
		}
	}
	v.NonTrivial = nvals >= 3 && ref.Valid(bytes.TrimSpace(c.Stream)) || nvals >= 4
	if !reflect.DeepEqual(t1, t2) {
		// find the first difference for the message
		i := 0
		for i < len(t1) && i < len(t2) && reflect.DeepEqual(t1[i], t2[i]) {
			i++
		}
		lo := max(0, i-4)
		v.Err = fmt.Errorf("Decoder traces differ at step %d (mode %s, chunk %d)\n fork: %v\n std:  %v", i, c.Mode, c.Chunk, t1[lo:min(len(t1), i+4)], t2[lo:min(len(t2), i+4)])
	}
	return v
}

var streamUnit = ev.Unit[StreamCase]{
	Name: "streams-vs-stdlib",
	Rule: "streams of 0-4 generated values (any spelling, separators of whitespace or nothing, one in five damaged) read through a reader that hands out 1..4096 bytes per Read; the reader may return (0, nil) before every data read, fail with its own error after a drawn number of bytes (also together with its last data), or deliver a 65-140 KiB value; modes: Decode loop, Token loop, mixed Token/Decode, typed Decode that fails with type errors and goes on, Decode with an unusable target in between, and Encoder (SetIndent, SetEscapeHTML) over the decoded values, also with a writer whose k-th Write fails once; oracle: the trace of More, InputOffset, Token/Decode results (numbers via UseNumber, mapped), dynamic error types and Buffered of the fork's Decoder equals encoding/json's, and Encoder bytes are identical after normalising \\b \\f; non-trivial = >= 3 steps on a well-formed stream or >= 4 steps, or >= 2 encoded values",
	Draw: drawStream, Check: checkStream,
}

func TestPropStreams(t *testing.T) { ev.RunProp(t, "C17", streamUnit) }

func TestReplay(t *testing.T) {
	tr := rtUnit.Replayer()
	ev.Replay(t, map[string]ev.Replayer{rtUnit.Name: tr, trUnit.Name: trUnit.Replayer(), typeUnit.Name: typeUnit.Replayer(), valueUnit.Name: valueUnit.Replayer(), streamUnit.Name: streamUnit.Replayer(), typeErrUnit.Name: typeErrUnit.Replayer(),
		"fuzz-roundtrip": tr, "fuzz-token": streamUnit.Replayer()})
}

// ---------- native fuzz targets (thorough tier) ----------

func FuzzRoundTrip(f *testing.F) {
	for _, s := range []string{`{"a":[1,2.5e-3,"xé😀",true,false,null,{}],"b":{"c":12345678901234567890123}}`, ` [ "<&>", " " ] `, `"\ud800"`, "-0.0e+0", `{"k":"v","k2":{"z":1,"a":2}}`} {
		f.Add([]byte(s))
	}
	f.Fuzz(func(t *testing.T, b []byte) {
		c := TextCase{Text: b}
		for _, chk := range []func(TextCase) ev.Verdict{checkRoundTrip, checkTransforms} {
			if v := chk(c); v.Err != nil && v.Excluded == "" {
				ev.ReportFuzzFailure("C17", "fuzz-roundtrip", c, v.Err)
				t.Fatalf("C17 violated: %v", v.Err)
			}
		}
	})
}

func FuzzToken(f *testing.F) {
	f.Add([]byte(`{"a":[1,"x",true,null,{"b":2.5}]} [1] "s" 3`), uint8(3), uint8(0))
	f.Add([]byte(`[{"a":1},{"a":2}]`), uint8(1), uint8(1))
	f.Add([]byte(`{"a" 1}`), uint8(7), uint8(2))
	f.Fuzz(func(t *testing.T, b []byte, chunk, mode uint8) {
		c := StreamCase{Stream: b, Chunk: int(chunk%64) + 1, Mode: []string{"decode", "token", "mixed"}[mode%3]}
		if v := checkStream(c); v.Err != nil && v.Excluded == "" {
			ev.ReportFuzzFailure("C17", "fuzz-token", c, v.Err)
			t.Fatalf("C17 violated: %v", v.Err)
		}
	})
}
