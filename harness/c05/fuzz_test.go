package c05

import (
	"testing"

	"github.com/evanphx/json-patch/v5/xverif/ev"
)

// FuzzOrder: (document, patch) bytes through the ordered comparison, the
// empty-patch relation and the merge order predicate (each excludes what is
// outside its domain).
func FuzzOrder(f *testing.F) {
	for _, d := range []string{`{"b":1.0,"a":{"z":1e400,"y":[-0,{"k":12345678901234567890123}]},"c":"s"}`, `[{"b":1,"a":2},[1.50]]`, `{}`, `{"a":null,"b":2,"c":3}`} {
		for _, p := range []string{`[{"op":"remove","path":"/b"},{"op":"add","path":"/b","value":2},{"op":"move","from":"/a/z","path":"/z"},{"op":"copy","from":"/c","path":"/a/c"},{"op":"replace","path":"/a/y/0","value":0.0}]`, `[]`, ` [ ] `, `{"a":null,"d":{"q":1.0},"b":{"x":2}}`} {
			f.Add([]byte(d), []byte(p))
		}
	}
	f.Fuzz(func(t *testing.T, doc, patch []byte) {
		ev.FuzzCheck(t, "C05", applyUnit, ApplyCase{Doc: string(doc), Patch: string(patch)})
		ev.FuzzCheck(t, "C05", emptyUnit, EmptyCase{Doc: string(doc), Patch: string(patch)})
		ev.FuzzCheck(t, "C05", mergeUnit, MergeCase{Doc: string(doc), Patch: string(patch)})
	})
}
