// C05 — member order and literals of untouched data are preserved (v5).
package c05

import (
	"fmt"
	"strconv"
	"strings"
	"testing"

	jp "github.com/evanphx/json-patch/v5"
	"github.com/evanphx/json-patch/v5/xverif/ev"
	"github.com/evanphx/json-patch/v5/xverif/gen"
	"github.com/evanphx/json-patch/v5/xverif/lib"
	"github.com/evanphx/json-patch/v5/xverif/ref"
	"pgregory.net/rapid"
)

// ---------- Apply: ordered comparison with the model ----------

type ApplyCase struct {
	Doc   string `json:"doc"`
	Patch string `json:"patch"`
}

// exoticNumber: a literal that Go would not print this way from a float64
// (so any float conversion on the way would show).
func exoticNumber(v *ref.V) bool {
	return v.Any(func(x *ref.V) bool {
		if x.K != ref.KNum {
			return false
		}
		f, err := strconv.ParseFloat(x.Num, 64)
		if err != nil {
			return true
		}
		return strconv.FormatFloat(f, 'g', -1, 64) != x.Num && strconv.FormatFloat(f, 'f', -1, 64) != x.Num
	})
}

// touchesBusyObject: some operation created, removed or replaced a member of
// an object that (before the operation) had at least two other members.
func touchesBusyObject(doc *ref.V, ops []ref.Op, o ref.Opts) bool {
	st := &ref.State{Root: doc.Clone()}
	busy := false
	for _, op := range ops {
		for _, p := range []string{op.Path, op.From} {
			if p == "" {
				continue
			}
			toks, r := ref.SplitPointer(p)
			if r.Cause != ref.COK || len(toks) == 0 {
				continue
			}
			parent := "/" + joinToks(toks[:len(toks)-1])
			if len(toks) == 1 {
				parent = ""
			}
			if pv, r := ref.Lookup(st.Root, parent, o); r.Cause == ref.COK && pv.K == ref.KObj {
				others := len(pv.Keys)
				if _, ok := pv.Get(ref.DecodeTok(toks[len(toks)-1])); ok {
					others--
				}
				if others >= 2 && op.Op != "test" {
					busy = true
				}
			}
		}
		if r := ref.Step(st, op, o); r.Cause != ref.COK {
			break
		}
	}
	return busy
}

func joinToks(t []string) string {
	s := ""
	for i, x := range t {
		if i > 0 {
			s += "/"
		}
		s += x
	}
	return s
}

var applyUnit = ev.Unit[ApplyCase]{
	Name: "apply-order",
	Rule: "as C01 (state-aware operation sequences over documents with index-like/escaped names and exotic number literals), default options; oracle: output EqualOrdered (member order and number literals significant) to the ordered reference result; non-trivial = all operations apply and (an operation created/removed/replaced a member of an object that had >=2 other members, or a number literal that float64 formatting would not reproduce survives into the output)",
	Draw: func(t *rapid.T) ApplyCase {
		if gen.OneIn(t, 150, "bulk") {
			d, ops, _ := gen.Bulk(t)
			return ApplyCase{Doc: d.Text(false), Patch: ref.OpsText(ops, false)}
		}
		if gen.OneIn(t, 400, "manyops") {
			d, ops := gen.ManyOps(t)
			return ApplyCase{Doc: d.Text(false), Patch: ref.OpsText(ops, false)}
		}
		doc := gen.Default.Root().Draw(t, "doc")
		g := gen.NewOpGen(true).Calm()
		if gen.OneIn(t, 4, "noisy") {
			g.NearMiss = 10
		}
		g.Swarm(t)
		maxOps := 8
		if gen.OneIn(t, 15, "longseq") {
			maxOps = 24
		}
		var ops []ref.Op
		if gen.OneIn(t, 20, "alias") {
			ops = g.Alias(t, doc, ref.Opts{Neg: true})
		} else {
			ops = g.Seq(t, doc, ref.Opts{Neg: true}, 1, maxOps, 0)
		}
		dt, pt := gen.Texts(t, doc, ref.OpsTree(ops), false, "sp")
		return ApplyCase{Doc: dt, Patch: pt}
	},
	Check: func(c ApplyCase) ev.Verdict {
		doc, ops, why := lib.ParseCase(c.Doc, c.Patch)
		if why != "" {
			return ev.Excluded(why)
		}
		o := lib.Defaults()
		want := ref.Apply(doc, ops, o.Ref())
		got := lib.Apply(c.Doc, c.Patch, o)
		if want.OutOfDomain() {
			return ev.Excluded("out of domain: "+want.Res.Why, "ood")
		}
		if got.Panic != nil {
			return ev.Verdict{Err: got.Panic}
		}
		if !want.OK() {
			// C01/C08 matter; here only the agreement on failure is kept
			if got.Err == nil && got.DecodeErr == nil {
				return ev.Fail("reference fails at operation %d (%s) but Apply succeeded: %s", want.FailAt, want.Res.Cause, got.Out)
			}
			return ev.Verdict{Classes: []string{"patch-fails"}}
		}
		v := ev.Verdict{Classes: []string{fmt.Sprintf("ok/nops=%d", len(ops))}}
		busy, exotic := touchesBusyObject(doc, ops, o.Ref()), exoticNumber(want.Doc)
		if busy {
			v.Classes = append(v.Classes, "touches-busy-object")
		}
		if exotic {
			v.Classes = append(v.Classes, "exotic-number-survives")
		}
		v.NonTrivial = busy || exotic
		if got.DecodeErr != nil || got.Err != nil {
			v.Err = fmt.Errorf("reference succeeds but library failed: %v", got)
			return v
		}
		out, err := ref.Parse(got.Out)
		if err != nil {
			v.Err = fmt.Errorf("output not well-formed: %q", got.Out)
			return v
		}
		if !ref.EqualOrdered(out, want.Doc) {
			if ref.Equal(out, want.Doc) {
				v.Err = fmt.Errorf("member order differs from the stated order rules\n got: %s\nwant: %s", got.Out, want.Doc)
			} else {
				v.Err = fmt.Errorf("value or number literal differs\n got: %s\nwant: %s", got.Out, want.Doc)
			}
		}
		return v
	},
}

// ---------- empty patch ----------

type EmptyCase struct {
	Doc    string `json:"doc"`
	Patch  string `json:"patch"`
	Indent string `json:"indent"`
}

var emptyUnit = ev.Unit[EmptyCase]{
	Name: "empty-patch",
	Rule: "document in any spelling (random insignificant whitespace, either escaping) x the empty patch (also with whitespace) x optional indent; oracle: output EqualOrdered to the input; non-trivial = document has an object with >=2 members or an exotic number literal",
	Draw: func(t *rapid.T) EmptyCase {
		doc := gen.Default.Root().Draw(t, "doc")
		txt := gen.Spell(t, doc, "sp")
		p := rapid.SampledFrom([]string{"[]", " [ ] ", "[\n]", "\t[]\r\n"}).Draw(t, "patch")
		ind := rapid.SampledFrom([]string{"", "", " ", "\t"}).Draw(t, "indent")
		return EmptyCase{Doc: txt, Patch: p, Indent: ind}
	},
	Check: func(c EmptyCase) ev.Verdict {
		doc, ops, why := lib.ParseCase(c.Doc, c.Patch)
		if why != "" {
			return ev.Excluded(why)
		}
		if len(ops) != 0 {
			return ev.Excluded("patch not empty")
		}
		o := lib.Defaults()
		o.Indent = c.Indent
		got := lib.Apply(c.Doc, c.Patch, o)
		v := ev.Verdict{}
		v.NonTrivial = exoticNumber(doc) || doc.Any(func(x *ref.V) bool { return x.K == ref.KObj && len(x.Keys) >= 2 })
		if got.Panic != nil || got.DecodeErr != nil || got.Err != nil {
			v.Err = fmt.Errorf("empty patch failed: %v", got)
			return v
		}
		out, err := ref.Parse(got.Out)
		if err != nil {
			v.Err = fmt.Errorf("output not well-formed: %q", got.Out)
			return v
		}
		if !ref.EqualOrdered(out, doc) {
			v.Err = fmt.Errorf("empty patch changed the document\n got: %s\nwant: %s", got.Out, doc)
		}
		return v
	},
}

// ---------- MergePatch: order predicate ----------

type MergeCase struct {
	Doc   string `json:"doc"`
	Patch string `json:"patch"`
}

// orderOK: at every object reachable in both document and output, members
// present in both appear in document order and before any member new to it.
func orderOK(doc, out *ref.V, path string) error {
	if doc.K != ref.KObj || out.K != ref.KObj {
		return nil
	}
	last := -1
	seenNew := false
	for i, k := range out.Keys {
		di := doc.Index(k)
		if di < 0 {
			seenNew = true
			continue
		}
		if seenNew {
			return fmt.Errorf("%s: surviving member %q comes after a newly added one", path, k)
		}
		if di < last {
			return fmt.Errorf("%s: surviving member %q is out of document order", path, k)
		}
		last = di
		if err := orderOK(doc.Vals[di], out.Vals[i], path+"/"+k); err != nil {
			return err
		}
	}
	return nil
}

var mergeUnit = ev.Unit[MergeCase]{
	Name: "merge-order",
	Rule: "object document x object merge patch obtained by mutating the document (shared names, deletions, additions, recursion, type changes); oracle: value = RFC 7396 result with number literals intact, and at every object present in both document and output the surviving members keep document order ahead of new ones (order among new members is unspecified); non-trivial = an object with >=2 surviving members also gains or loses a member, or an exotic number survives",
	Draw: func(t *rapid.T) MergeCase {
		if gen.OneIn(t, 150, "bulk") {
			d, _, m := gen.Bulk(t)
			return MergeCase{Doc: d.Text(false), Patch: m.Text(false)}
		}
		doc := gen.WithEmptyName.Object(3).Draw(t, "doc")
		patch := gen.WithEmptyName.Mutate(t, doc, 2)
		if gen.OneIn(t, 5, "indep") {
			patch = gen.WithEmptyName.Object(3).Draw(t, "ipatch")
		}
		dt, pt := gen.Texts(t, doc, patch, false, "sp")
		return MergeCase{Doc: dt, Patch: pt}
	},
	Check: func(c MergeCase) ev.Verdict {
		doc, err1 := ref.Parse([]byte(c.Doc))
		patch, err2 := ref.Parse([]byte(c.Patch))
		if err1 != nil || err2 != nil || doc.K != ref.KObj || patch.K != ref.KObj || doc.HasDup() || patch.HasDup() {
			return ev.Excluded("not a pair of duplicate-free objects")
		}
		want := ref.Merge(doc, patch)
		var out []byte
		var err error
		if p := ev.Safe(func() { out, err = jp.MergePatch([]byte(c.Doc), []byte(c.Patch)) }); p != nil {
			return ev.Verdict{Err: p}
		}
		v := ev.Verdict{}
		changed := false
		var walk func(d, w *ref.V)
		walk = func(d, w *ref.V) {
			if d.K != ref.KObj || w.K != ref.KObj {
				return
			}
			surv, diff := 0, false
			for i, k := range w.Keys {
				if j := d.Index(k); j >= 0 {
					surv++
					walk(d.Vals[j], w.Vals[i])
				} else {
					diff = true
				}
			}
			if surv != len(d.Keys) {
				diff = true
			}
			if surv >= 2 && diff {
				changed = true
			}
		}
		walk(doc, want)
		v.NonTrivial = changed || exoticNumber(want)
		if err != nil {
			v.Err = fmt.Errorf("MergePatch failed: %v", err)
			return v
		}
		g, perr := ref.Parse(out)
		if perr != nil {
			v.Err = fmt.Errorf("output not well-formed: %q", out)
			return v
		}
		if !ref.Equal(g, want) {
			v.Err = fmt.Errorf("value or number literal differs from the RFC 7396 result\n got: %s\nwant: %s", out, want)
			return v
		}
		if err := orderOK(doc, g, ""); err != nil {
			v.Err = fmt.Errorf("%v\n doc: %s\n out: %s", err, c.Doc, out)
		}
		return v
	},
}

// ---------- objects that repeat a member name ----------

// RepeatCase: a root object that spells one member name twice, and one add of a new member.
type RepeatCase struct {
	Doc   string `json:"doc"`
	Name  string `json:"new_member"`
	Value string `json:"value"`
}

var repeatUnit = ev.Unit[RepeatCase]{
	Name: "repeated-name",
	Rule: "root object with 1-6 members (any values, exotic number literals) of which one name is spelled twice x one add of a member with a new name and a scalar literal; what the repeated members mean is open (RFC 8259 section 4), so nothing is compared with the reference model; oracle: the output is, byte for byte, the output of the empty patch with the new member appended before the closing brace - everything untouched is rendered as the empty patch renders it, and the member that was added is there, last, with its literal; non-trivial = every case",
	Draw: func(t *rapid.T) RepeatCase {
		d := gen.Default.Object(2).Draw(t, "doc")
		if len(d.Keys) == 0 {
			d.Set("k", ref.Num("1.0"))
		}
		i := gen.Uniform(t, 0, len(d.Keys)-1, "ri")
		at := gen.Uniform(t, 0, len(d.Keys), "rat")
		nv := gen.Default.Scalar().Draw(t, "rv")
		if gen.OneIn(t, 3, "rexotic") {
			nv = ref.Num(rapid.SampledFrom([]string{"1e400", "1.0", "-0", "12345678901234567890123", "1E+2"}).Draw(t, "rnum"))
		}
		keys := append(append(append([]string{}, d.Keys[:at]...), d.Keys[i]), d.Keys[at:]...)
		vals := append(append(append([]*ref.V{}, d.Vals[:at]...), nv), d.Vals[at:]...)
		d.Keys, d.Vals = keys, vals
		val := rapid.SampledFrom([]string{"1", "12345678901234567890123", "1e400", "2.50", `"s"`, "null", "true", "[]", "{}", `{"q":null}`, "[1.0,null]"}).Draw(t, "aval")
		name := rapid.SampledFrom([]string{"zn", "n", "new", "0", "k2"}).Draw(t, "aname")
		return RepeatCase{Doc: d.Text(false), Name: name, Value: val}
	},
	Check: func(c RepeatCase) ev.Verdict {
		d, err := ref.Parse([]byte(c.Doc))
		if err != nil || d.K != ref.KObj || len(d.Keys) < 2 || !d.HasDup() {
			return ev.Excluded("not an object that repeats a name")
		}
		for _, k := range d.Keys {
			if k == c.Name {
				return ev.Excluded("the new name is taken")
			}
		}
		if strings.ContainsAny(c.Name, "~/\"\\<>&") || strings.ContainsAny(c.Value, "<>&\\ ") {
			return ev.Excluded("name or value needs escaping")
		}
		o := lib.Defaults()
		before := lib.Apply(c.Doc, "[]", o)
		got := lib.Apply(c.Doc, `[{"op":"add","path":"/`+c.Name+`","value":`+c.Value+`}]`, o)
		v := ev.Verdict{NonTrivial: true, Classes: []string{fmt.Sprintf("members=%d", len(d.Keys))}}
		for _, r := range []lib.Res{before, got} {
			if r.Panic != nil {
				return ev.Verdict{Err: r.Panic}
			}
			if r.DecodeErr != nil || r.Err != nil {
				v.Err = fmt.Errorf("Apply failed on an object that repeats a name: %v", r)
				return v
			}
		}
		if len(before.Out) < 2 || before.Out[len(before.Out)-1] != '}' {
			v.Err = fmt.Errorf("empty patch on an object gave %q", before.Out)
			return v
		}
		want := string(before.Out[:len(before.Out)-1]) + `,"` + c.Name + `":` + c.Value + "}"
		if string(got.Out) != want {
			v.Err = fmt.Errorf("adding a member to an object that repeats a name\n got: %s\nwant: %s (the empty patch's output plus the new member)", got.Out, want)
		}
		return v
	},
}

func TestPropRepeat(t *testing.T) { ev.RunProp(t, "C05", repeatUnit) }
func TestProp(t *testing.T)      { ev.RunProp(t, "C05", applyUnit) }
func TestPropEmpty(t *testing.T) { ev.RunProp(t, "C05", emptyUnit) }
func TestPropMerge(t *testing.T) { ev.RunProp(t, "C05", mergeUnit) }
func TestReplay(t *testing.T) {
	ev.Replay(t, map[string]ev.Replayer{applyUnit.Name: applyUnit.Replayer(), emptyUnit.Name: emptyUnit.Replayer(), mergeUnit.Name: mergeUnit.Replayer(), repeatUnit.Name: repeatUnit.Replayer()})
}
