package c14

import (
	"testing"

	"github.com/evanphx/json-patch/v5/xverif/ev"
)

// FuzzEnsure: (document, patch whose first operation is an add, option) through the ensure+add model.
func FuzzEnsure(f *testing.F) {
	for _, d := range []string{`{"a":{"b":[1]},"x/y":{"m~n":[]}}`, `[[],{"a":{}}]`, `{}`, `[]`} {
		for _, p := range []string{`[{"op":"add","path":"/a/c/d/2/e","value":1},{"op":"add","path":"/a/c/d/0","value":null}]`, `[{"op":"add","path":"/x~1y/m~0n/3/-","value":[null]}]`, `[{"op":"add","path":"/1/a/b/-","value":{}},{"op":"remove","path":"/0"}]`, `[{"op":"add","path":"/0/0/0","value":1}]`} {
			f.Add([]byte(d), []byte(p), true)
		}
	}
	f.Fuzz(func(t *testing.T, doc, patch []byte, neg bool) {
		ev.FuzzCheck(t, "C14", unit, Case{Doc: string(doc), Patch: string(patch), Neg: neg})
	})
}
