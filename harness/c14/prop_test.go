// C14 — EnsurePathExistsOnAdd creates exactly the missing parents (v5).
package c14

import (
	"fmt"
	"regexp"
	"strings"
	"testing"

	"github.com/evanphx/json-patch/v5/xverif/ev"
	"github.com/evanphx/json-patch/v5/xverif/gen"
	"github.com/evanphx/json-patch/v5/xverif/lib"
	"github.com/evanphx/json-patch/v5/xverif/ref"
	"pgregory.net/rapid"
)

type Case struct {
	Doc   string `json:"doc"`
	Patch string `json:"patch"` // first operation is the add under test
	Neg   bool   `json:"support_negative_indices"`
}

var htmlEsc = regexp.MustCompile(`(?i)\\u(003c|003e|0026)`)

var namePool = []string{"\u0663", "\uff11\uff12", "a", "b", "x/y", "m~n", "~1", "é", "k k", "<&>", "n0", "01x", "a/b~c", "e f", "c", "d"}

func draw(t *rapid.T) Case {
	doc := gen.Default.Root().Draw(t, "doc")
	neg := rapid.Bool().Draw(t, "neg")
	cs := gen.Containers(doc)
	bc := cs[rapid.IntRange(0, len(cs)-1).Draw(t, "ci")]
	base := bc.Ptr
	ext := gen.Uniform(t, 1, 4, "ext")
	path := base
	for i := 0; i < ext; i++ {
		last := i == ext-1
		tk := gen.Uniform(t, 0, 4, "tk")
		if i == 0 && bc.V.K == ref.KArr && !gen.OneIn(t, 10, "nameonarray") {
			// the first new token addresses an existing array: an index at or beyond its
			// end (padding) most of the time, '-' when it is also the last token
			n := len(bc.V.Arr)
			if last && gen.OneIn(t, 3, "dash") {
				path += "/-"
			} else if last {
				path += "/" + fmt.Sprint(gen.Uniform(t, 0, n, "ixl"))
			} else {
				path += "/" + fmt.Sprint(n+gen.Uniform(t, 0, 3, "ixp"))
			}
			continue
		}
		switch tk {
		case 0, 1, 2:
			path += "/" + ref.EncodeTok(rapid.SampledFrom(namePool).Draw(t, "nm"))
		case 3:
			path += "/" + fmt.Sprint(gen.Uniform(t, 0, 4, "ix"))
		case 4:
			if last {
				path += "/-"
			} else {
				path += "/" + fmt.Sprint(gen.Uniform(t, 0, 3, "ix2"))
			}
		}
	}
	val := gen.Default.Value(2).Draw(t, "val")
	ops := []ref.Op{{Op: "add", Path: path, Value: val}}
	// further arbitrary operations against the model's state
	ro := ref.Opts{Neg: neg, Ensure: true}
	st := &ref.State{Root: doc.Clone()}
	if r := ref.Step(st, ops[0], ro); r.Cause == ref.COK {
		g := gen.NewOpGen(neg).Calm()
		g.NoNegInner = true
		m := gen.Uniform(t, 0, 3, "more")
		for i := 0; i < m; i++ {
			op := g.Next(t, st.Root, i+1)
			ops = append(ops, op)
			trial := &ref.State{Root: st.Root.Clone()}
			if r := ref.Step(trial, op, ro); r.Cause != ref.COK {
				break
			}
			st = trial
		}
	}
	dt, pt := gen.Texts(t, doc, ref.OpsTree(ops), false, "sp")
	return Case{Doc: dt, Patch: pt, Neg: neg}
}

// drawAfterEdits: the ensure-add comes AFTER other operations of the same patch
// have edited the document (removes and moves out of arrays, earlier adds), and
// is drawn against the state they leave: padding must be nulls whatever sat in
// the array's storage before, and containers changed earlier must keep their changes.
func drawAfterEdits(t *rapid.T) Case {
	doc := gen.Default.Root().Draw(t, "doc")
	neg := rapid.Bool().Draw(t, "neg")
	ro := ref.Opts{Neg: neg, Ensure: true}
	st := &ref.State{Root: doc.Clone()}
	g := gen.NewOpGen(neg).Calm()
	g.NoNegInner = true
	g.Kinds = []string{"remove", "remove", "move", "add", "copy", "replace"}
	var ops []ref.Op
	step := func(op ref.Op) bool {
		trial := &ref.State{Root: st.Root.Clone()}
		if r := ref.Step(trial, op, ro); r.Cause != ref.COK {
			return false
		}
		st = trial
		ops = append(ops, op)
		return true
	}
	for i, n := 0, gen.Uniform(t, 1, 4, "pre"); i < n; i++ {
		step(g.Next(t, st.Root, i))
	}
	// one or two ensure-adds below arrays (index past the end) or below absent members of the current state
	for i, n := 0, gen.Uniform(t, 1, 2, "nadds"); i < n; i++ {
		cs := gen.Containers(st.Root)
		bc := cs[rapid.IntRange(0, len(cs)-1).Draw(t, "ci")]
		path := bc.Ptr
		if bc.V.K == ref.KArr {
			path += "/" + fmt.Sprint(len(bc.V.Arr)+gen.Uniform(t, 1, 3, "past"))
			if rapid.Bool().Draw(t, "deeper") {
				path += "/" + ref.EncodeTok(rapid.SampledFrom(namePool).Draw(t, "dn"))
			}
		} else {
			path += "/" + ref.EncodeTok(rapid.SampledFrom(namePool).Draw(t, "nm")) + "/" + fmt.Sprint(gen.Uniform(t, 0, 3, "ix"))
		}
		step(ref.Op{Op: "add", Path: path, Value: gen.Default.Value(1).Draw(t, "val")})
	}
	for i, n := 0, gen.Uniform(t, 0, 2, "post"); i < n; i++ {
		step(g.Next(t, st.Root, len(ops)))
	}
	dt, pt := gen.Texts(t, doc, ref.OpsTree(ops), false, "sp")
	return Case{Doc: dt, Patch: pt, Neg: neg}
}

// checkSeq: the whole sequence under the option against the reference, ordered.
func checkSeq(c Case) ev.Verdict {
	doc, ops, why := lib.ParseCase(c.Doc, c.Patch)
	if why != "" {
		return ev.Excluded(why)
	}
	for _, op := range ops {
		if lib.BigIndex(op.Path) {
			return ev.Excluded("array index above 10^4 under EnsurePathExistsOnAdd (quadratic padding; outside C04's stated domain)")
		}
	}
	on := lib.Options{Neg: c.Neg, Esc: true, Ensure: true}
	want := ref.Apply(doc, ops, on.Ref())
	if want.OutOfDomain() {
		return ev.Excluded("out of domain: "+want.Res.Why, "ood")
	}
	got := lib.Apply(c.Doc, c.Patch, on)
	if got.Panic != nil {
		return ev.Verdict{Err: got.Panic}
	}
	if got.DecodeErr != nil {
		return ev.Fail("DecodePatch rejected a valid patch: %v", got.DecodeErr)
	}
	created, padded, before := 0, 0, 0
	for i, r := range want.Results {
		if r.Created > 0 || r.Padded > 0 {
			created += r.Created
			padded += r.Padded
			if before == 0 {
				before = i
			}
		}
	}
	v := ev.Verdict{Classes: []string{fmt.Sprintf("ops=%d", min(len(ops), 8)), fmt.Sprintf("padded=%d", min(padded, 4)), fmt.Sprintf("ops-before-first-ensure=%d", min(before, 4))}}
	v.NonTrivial = want.OK() && (created > 0 || padded > 0) && before >= 1
	if want.OK() != (got.Err == nil) {
		v.Err = fmt.Errorf("reference ok=%v (fail at %d: %s) but library: %v", want.OK(), want.FailAt, want.Res.Cause, got)
		return v
	}
	if !want.OK() {
		return v
	}
	out, err := ref.Parse(got.Out)
	if err != nil {
		v.Err = fmt.Errorf("output not well-formed: %q", got.Out)
		return v
	}
	if !ref.EqualOrdered(out, want.Doc) {
		v.Err = fmt.Errorf("result differs from the reference (ensure+add after earlier edits: frame condition, created containers, null padding)\n got:  %s\n want: %s", got.Out, want.Doc)
	}
	return v
}

var seqUnit = ev.Unit[Case]{
	Name: "ensure-after-edits",
	Rule: "document x 1-4 applicable operations (removes and moves out of arrays, adds, copies, replaces) x 1-2 adds under EnsurePathExistsOnAdd drawn against the state those leave (an index 1-3 past the end of an existing array, optionally a member below it; or a new member holding an array) x 0-2 further operations; oracle: the whole sequence against the reference evaluator with the option, ordered comparison; non-trivial = every operation applies, something was created or padded, and at least one operation precedes the first ensuring add",
	Draw: drawAfterEdits, Check: checkSeq,
}

func TestPropSeq(t *testing.T) { ev.RunProp(t, "C14", seqUnit) }

func check(c Case) ev.Verdict {
	doc, ops, why := lib.ParseCase(c.Doc, c.Patch)
	if why != "" {
		return ev.Excluded(why)
	}
	if len(ops) == 0 || ops[0].Op != "add" || ops[0].Path == "" {
		return ev.Excluded("first operation is not an add below the root")
	}
	for _, op := range ops {
		if lib.BigIndex(op.Path) {
			return ev.Excluded("array index above 10^4 under EnsurePathExistsOnAdd (quadratic padding; outside C04's stated domain)")
		}
	}
	on := lib.Options{Neg: c.Neg, Esc: true, Ensure: true}
	off := lib.Options{Neg: c.Neg, Esc: true}
	want := ref.Apply(doc, ops, on.Ref())
	got := lib.Apply(c.Doc, c.Patch, on)
	if want.OutOfDomain() {
		return ev.Excluded("out of domain: "+want.Res.Why, "ood")
	}
	if got.Panic != nil {
		return ev.Verdict{Err: got.Panic}
	}
	if got.DecodeErr != nil {
		return ev.Fail("DecodePatch rejected a valid patch: %v", got.DecodeErr)
	}
	first := want.Results[0]
	path := ops[0].Path
	escaped := strings.Contains(path, "~")
	v := ev.Verdict{Classes: []string{fmt.Sprintf("created=%d", min(first.Created, 4)), fmt.Sprintf("padded=%d", min(first.Padded, 4)), fmt.Sprintf("more-ops=%d", len(ops)-1)}}
	if escaped {
		v.Classes = append(v.Classes, "escaped-token")
	}
	v.NonTrivial = first.Created >= 1 && (escaped || first.Padded > 0)
	if want.OK() != (got.Err == nil) {
		v.Err = fmt.Errorf("reference ok=%v (fail at %d: %s) but library: %v", want.OK(), want.FailAt, want.Res.Cause, got)
		return v
	}
	if !want.OK() {
		return v
	}
	out, err := ref.Parse(got.Out)
	if err != nil {
		v.Err = fmt.Errorf("output not well-formed: %q", got.Out)
		return v
	}
	if !ref.EqualOrdered(out, want.Doc) {
		v.Err = fmt.Errorf("result differs from ensure+add (frame condition, created containers, padding)\n got:  %s\n want: %s", got.Out, want.Doc)
		return v
	}
	// created containers obey the call's EscapeHTML setting like everything else: with it off and the
	// inputs spelled without \u003c-style escapes, the output has none either (and denotes the same value)
	if in := c.Doc + c.Patch; !htmlEsc.MatchString(in) {
		raw := on
		raw.Esc = false
		gr := lib.Apply(c.Doc, c.Patch, raw)
		if gr.Panic != nil {
			return ev.Verdict{Err: gr.Panic}
		}
		if gr.Err != nil {
			v.Err = fmt.Errorf("the same call with EscapeHTML off failed: %v", gr.Err)
			return v
		}
		if htmlEsc.Match(gr.Out) {
			v.Err = fmt.Errorf("EscapeHTML off, but the output spells <, > or & as an escape (inside a container the option created?): %s", gr.Out)
			return v
		}
		if o2, err := ref.Parse(gr.Out); err != nil || !ref.EqualOrdered(o2, want.Doc) {
			v.Err = fmt.Errorf("EscapeHTML off changes the value: %s", gr.Out)
			return v
		}
	}
	// the add alone: value found at the path; agreement with plain add
	one := ref.OpsText(ops[:1], false)
	g1 := lib.Apply(c.Doc, one, on)
	if g1.Panic != nil || g1.Err != nil {
		v.Err = fmt.Errorf("the add alone failed: %v", g1)
		return v
	}
	o1, err := ref.Parse(g1.Out)
	if err != nil {
		v.Err = fmt.Errorf("output not well-formed: %q", g1.Out)
		return v
	}
	if !strings.HasSuffix(path, "/-") {
		at, r := ref.Lookup(o1, path, ref.Opts{Neg: c.Neg})
		if r.Cause != ref.COK || !ref.Equal(at, ops[0].Value) {
			v.Err = fmt.Errorf("after add %q the value is not found at that path (%s) in %s", path, r.Cause, g1.Out)
			return v
		}
	}
	p1 := lib.Apply(c.Doc, one, off)
	if p1.Panic != nil {
		return ev.Verdict{Err: p1.Panic}
	}
	if p1.Err == nil {
		v.Classes = append(v.Classes, "plain-add-succeeds")
		po, err := ref.Parse(p1.Out)
		if err != nil || !ref.EqualOrdered(po, o1) {
			v.Err = fmt.Errorf("an add that succeeds without the option gives a different result with it:\n off: %s\n on:  %s", p1.Out, g1.Out)
		}
	}
	return v
}

var unit = ev.Unit[Case]{
	Name: "ensure-path",
	Rule: "document x add whose path = an existing container path extended by 1-4 tokens (member names incl. names containing '/' and '~' encoded as ~1/~0, canonical indices 0-4, '-' only last) x arbitrary value x 0-3 further state-aware operations x SupportNegativeIndices; oracle: reference ensure+add (object or array by next token, null padding) compared ordered, independent pointer lookup of the value, agreement with plain add when that succeeds; judged only in the clear domain (exclusions counted); non-trivial = >=1 container created and the path has an escaped token or a padded index",
	Draw: draw, Check: check,
}

func TestProp(t *testing.T) { ev.RunProp(t, "C14", unit) }
func TestReplay(t *testing.T) {
	ev.Replay(t, map[string]ev.Replayer{unit.Name: unit.Replayer(), seqUnit.Name: seqUnit.Replayer()})
}
