// C11 — DecodePatch accepts exactly well-formed RFC 6902 patch documents (v5).
package c11

import (
	"fmt"
	"sort"
	"testing"

	jp "github.com/evanphx/json-patch/v5"
	fj "github.com/evanphx/json-patch/v5/internal/json"
	"github.com/evanphx/json-patch/v5/xverif/ev"
	"github.com/evanphx/json-patch/v5/xverif/gen"
	"github.com/evanphx/json-patch/v5/xverif/ref"
	"pgregory.net/rapid"
)

type Case struct {
	Text string `json:"text"`
	// Mutations is informational: how far the text is from a valid patch.
	Mutations int `json:"mutations"`
}

var opNames = []string{"add", "remove", "replace", "move", "copy", "test"}

// member returns the member value under a first-wins or last-wins reading of duplicates.
func member(e *ref.V, k string, last bool) (*ref.V, bool) {
	var r *ref.V
	ok := false
	for i, kk := range e.Keys {
		if kk == k {
			if !ok || last {
				r = e.Vals[i]
			}
			ok = true
		}
	}
	return r, ok
}

// validOp is the independent validator of one element.
func validOp(e *ref.V, last bool) bool {
	if e.K != ref.KObj {
		return false
	}
	op, ok := member(e, "op", last)
	if !ok || op.K != ref.KStr {
		return false
	}
	known := false
	for _, n := range opNames {
		if n == op.Str {
			known = true
		}
	}
	if !known {
		return false
	}
	if p, ok := member(e, "path", last); !ok || p.K != ref.KStr {
		return false
	}
	if op.Str == "add" || op.Str == "replace" {
		if _, ok := member(e, "value", last); !ok {
			return false
		}
	}
	if op.Str == "move" || op.Str == "copy" {
		if f, ok := member(e, "from", last); !ok || f.K != ref.KStr {
			return false
		}
	}
	return true
}

// fromAny converts a value decoded by the embedded codec into the reference tree.
func fromAny(x any) (*ref.V, error) {
	switch t := x.(type) {
	case nil:
		return ref.Null(), nil
	case bool:
		return ref.Bool(t), nil
	case string:
		return ref.Str(t), nil
	case fj.Number:
		return ref.Num(string(t)), nil
	case float64:
		return nil, fmt.Errorf("number decoded as float64 %v (literal lost)", t)
	case []any:
		a := ref.Arr()
		for _, e := range t {
			v, err := fromAny(e)
			if err != nil {
				return nil, err
			}
			a.Arr = append(a.Arr, v)
		}
		return a, nil
	case map[string]any:
		o := ref.Obj()
		ks := make([]string, 0, len(t))
		for k := range t {
			ks = append(ks, k)
		}
		sort.Strings(ks)
		for _, k := range ks {
			v, err := fromAny(t[k])
			if err != nil {
				return nil, err
			}
			o.Set(k, v)
		}
		return o, nil
	}
	return nil, fmt.Errorf("unexpected Go type %T", x)
}

func check(c Case) ev.Verdict {
	tree, info, perr := ref.ParseInfo([]byte(c.Text))
	var p jp.Patch
	var err error
	pn := ev.Safe(func() { p, err = jp.DecodePatch([]byte(c.Text)) })
	if perr != nil {
		if pn != nil {
			return ev.Verdict{Err: pn}
		}
		v := ev.Verdict{Classes: []string{"malformed"}, NonTrivial: len(c.Text) >= 2}
		if err == nil || p != nil {
			v.Err = fmt.Errorf("malformed JSON accepted (or non-nil Patch returned): err=%v", err)
		}
		return v
	}
	if tree.K == ref.KNull {
		return ev.Excluded("the text null (decodes to an empty patch; outside the stated domain)")
	}
	wantF, wantL := tree.K == ref.KArr, tree.K == ref.KArr
	if tree.K == ref.KArr {
		for _, e := range tree.Arr {
			wantF = wantF && validOp(e, false)
			wantL = wantL && validOp(e, true)
		}
	}
	if wantF != wantL {
		return ev.Excluded("duplicate member whose first and last occurrence disagree on validity", "ambiguous-dup")
	}
	if pn != nil {
		return ev.Verdict{Err: pn}
	}
	v := ev.Verdict{Classes: []string{fmt.Sprintf("valid=%v", wantF), fmt.Sprintf("mutations=%d", min(c.Mutations, 3))}}
	v.NonTrivial = c.Mutations == 1 || (wantF && tree.K == ref.KArr && len(tree.Arr) >= 2)
	if (err == nil) != wantF {
		v.Err = fmt.Errorf("DecodePatch err=%v but the independent validator says valid=%v", err, wantF)
		return v
	}
	if err != nil {
		if p != nil {
			v.Err = fmt.Errorf("non-nil Patch returned together with an error")
		}
		return v
	}
	if p == nil && len(tree.Arr) > 0 {
		v.Err = fmt.Errorf("nil Patch without an error")
		return v
	}
	// accessors
	if len(p) != len(tree.Arr) {
		v.Err = fmt.Errorf("patch has %d operations, document has %d elements", len(p), len(tree.Arr))
		return v
	}
	for i, op := range p {
		e := tree.Arr[i]
		dupAmbiguous := func(k string) bool {
			a, _ := member(e, k, false)
			b, _ := member(e, k, true)
			return a != nil && b != nil && !ref.Equal(a, b)
		}
		var accErr error
		if pn := ev.Safe(func() {
			if kind, _ := member(e, "op", false); !dupAmbiguous("op") && op.Kind() != kind.Str {
				accErr = fmt.Errorf("operation %d: Kind() = %q, member is %q", i, op.Kind(), kind.Str)
				return
			}
			if path, _ := member(e, "path", false); !dupAmbiguous("path") {
				if got, err := op.Path(); err != nil || got != path.Str {
					accErr = fmt.Errorf("operation %d: Path() = %q, %v; member is %q", i, got, err, path.Str)
					return
				}
			}
			from, hasFrom := member(e, "from", false)
			if got, err := op.From(); !dupAmbiguous("from") {
				switch {
				case hasFrom && from.K == ref.KStr:
					if err != nil || got != from.Str {
						accErr = fmt.Errorf("operation %d: From() = %q, %v; member is %q", i, got, err, from.Str)
						return
					}
				case !hasFrom:
					if err == nil {
						accErr = fmt.Errorf("operation %d: From() succeeded (%q) without a from member", i, got)
						return
					}
				}
			}
			val, hasVal := member(e, "value", false)
			if got, err := op.ValueInterface(); !dupAmbiguous("value") {
				switch {
				case hasVal && !info.LoneSurrogate && !val.HasDup():
					gv, cerr := fromAny(got)
					if err != nil || cerr != nil || !ref.Equal(gv, val) {
						accErr = fmt.Errorf("operation %d: ValueInterface() = %v, %v, %v; member is %s", i, got, err, cerr, val)
						return
					}
				case !hasVal:
					if err == nil {
						accErr = fmt.Errorf("operation %d: ValueInterface() succeeded without a value member", i)
						return
					}
				}
			}
		}); pn != nil {
			return ev.Verdict{Err: pn}
		}
		if accErr != nil {
			v.Err = accErr
			return v
		}
	}
	return v
}

// ---------- generators ----------

func validOpTree(t *rapid.T, l string) *ref.V {
	c := gen.Default
	o := ref.Obj()
	kind := rapid.SampledFrom(opNames).Draw(t, l+"k")
	path := rapid.SampledFrom([]string{"/a", "", "/a/b", "/0", "/x~1y", "/é", "/q\"uote", "/-"}).Draw(t, l+"p")
	add := func(k string, v *ref.V) { o.Keys = append(o.Keys, k); o.Vals = append(o.Vals, v) }
	members := [][2]any{{"op", ref.Str(kind)}, {"path", ref.Str(path)}}
	if kind == "move" || kind == "copy" {
		members = append(members, [2]any{"from", ref.Str(rapid.SampledFrom([]string{"/b", "", "/a/0", "/m~0n"}).Draw(t, l+"f"))})
	}
	if kind == "add" || kind == "replace" || (kind == "test" && !gen.OneIn(t, 4, l+"noval")) {
		members = append(members, [2]any{"value", c.Value(2).Draw(t, l+"v")})
	}
	if gen.OneIn(t, 3, l+"extra") {
		members = append(members, [2]any{rapid.SampledFrom([]string{"comment", "x", "Op", "values", "from_", ""}).Draw(t, l+"en"), c.Value(1).Draw(t, l+"ev")})
	}
	if gen.OneIn(t, 5, l+"foreign") {
		// a member another operation kind defines, on a kind that does not: to this kind it is just an extra member
		has := map[string]bool{}
		for _, m := range members {
			has[m[0].(string)] = true
		}
		for _, name := range []string{"from", "value"} {
			if !has[name] && rapid.Bool().Draw(t, l+"fm"+name) {
				if name == "value" && kind == "test" {
					continue // a test without value is a case of its own above
				}
				members = append(members, [2]any{name, c.Value(1).Draw(t, l+"fv"+name)})
			}
		}
	}
	if gen.OneIn(t, 2, l+"shuffle") {
		idx := rapid.Permutation([]int{0, 1, 2, 3, 4}[:len(members)]).Draw(t, l+"perm")
		sh := make([][2]any, len(members))
		for i, j := range idx {
			sh[i] = members[j]
		}
		members = sh
	}
	for _, m := range members {
		add(m[0].(string), m[1].(*ref.V))
	}
	return o
}

var renames = map[string][]string{"op": {"Op", "OP", "op ", "_op"}, "path": {"Path", "PATH", "paths"}, "from": {"From", "FROM", "form"}, "value": {"Value", "VALUE", "val"}}
var badOps = []string{"Add", "ADD", "", "ad", "addx", "delete", "test ", " copy", "mov", "Remove", "replace\u0000"}

func retypes() []*ref.V {
	return []*ref.V{ref.Bool(true), ref.Num("1"), ref.Str("add"), ref.Str("/x"), ref.Arr(), ref.Arr(ref.Str("/a")), ref.Obj(), ref.ObjOf("op", ref.Str("add"))}
}

// mutate applies one member mutation to element o (in place), or returns a replacement element.
func mutate(t *rapid.T, o *ref.V, l string) *ref.V {
	if len(o.Keys) == 0 {
		return o
	}
	ki := rapid.IntRange(0, len(o.Keys)-1).Draw(t, l+"ki")
	name := o.Keys[ki]
	switch gen.Uniform(t, 0, 7, l+"mut") {
	case 0: // delete
		o.Keys = append(append([]string{}, o.Keys[:ki]...), o.Keys[ki+1:]...)
		o.Vals = append(append([]*ref.V{}, o.Vals[:ki]...), o.Vals[ki+1:]...)
	case 1:
		o.Vals[ki] = ref.Null()
	case 2:
		o.Vals[ki] = rapid.SampledFrom(retypes()).Draw(t, l+"rt")
	case 3:
		if rn, ok := renames[name]; ok {
			o.Keys[ki] = rapid.SampledFrom(rn).Draw(t, l+"rn")
		}
	case 4: // duplicate with another value
		o.Keys = append(o.Keys, name)
		o.Vals = append(o.Vals, rapid.SampledFrom(append(retypes(), ref.Null(), o.Vals[ki])).Draw(t, l+"dv"))
	case 5: // element replaced by a non-object
		return rapid.SampledFrom([]*ref.V{ref.Null(), ref.Num("1"), ref.Str("add"), ref.Arr(), ref.Arr(o.Clone()), ref.Bool(false)}).Draw(t, l+"el")
	case 6: // unknown op string
		for i, k := range o.Keys {
			if k == "op" {
				o.Vals[i] = ref.Str(rapid.SampledFrom(badOps).Draw(t, l+"bo"))
			}
		}
	case 7: // duplicate at the front (so first-wins and last-wins differ in position)
		o.Keys = append([]string{name}, o.Keys...)
		o.Vals = append([]*ref.V{rapid.SampledFrom(append(retypes(), ref.Null())).Draw(t, l+"dv2")}, o.Vals...)
	}
	return o
}

func draw(t *rapid.T) Case {
	n := gen.Uniform(t, 0, 4, "n")
	root := ref.Arr()
	total := 0
	for i := 0; i < n; i++ {
		l := fmt.Sprintf("o%d.", i)
		el := validOpTree(t, l)
		nm := 0
		if gen.OneIn(t, 3, l+"mutate") {
			nm = gen.Uniform(t, 1, 3, l+"nm")
		}
		for m := 0; m < nm && el.K == ref.KObj; m++ {
			el = mutate(t, el, fmt.Sprintf("%sm%d.", l, m))
		}
		total += nm
		root.Arr = append(root.Arr, el)
	}
	var v *ref.V = root
	if gen.OneIn(t, 20, "rootmut") {
		total++
		v = rapid.SampledFrom([]*ref.V{ref.Obj(), ref.Str("[]"), ref.Num("0"), ref.Bool(true), ref.ObjOf("op", ref.Str("add"), "path", ref.Str("/a"), "value", ref.Num("1"))}).Draw(t, "rv")
		if len(root.Arr) > 0 && rapid.Bool().Draw(t, "unwrap") {
			v = root.Arr[0]
		}
	}
	text := v.Text(false)
	if gen.OneIn(t, 5, "spell") {
		text = gen.Spell(t, v, "sp")
	}
	if gen.OneIn(t, 25, "malform") && len(text) > 0 {
		total++
		i := rapid.IntRange(0, len(text)-1).Draw(t, "mi")
		text = text[:i] + rapid.SampledFrom([]string{"", "x", "]", "\x00", ","}).Draw(t, "mc") + text[i+1:]
	}
	if gen.OneIn(t, 10, "lex") {
		// an otherwise valid patch with one token that is almost JSON (-01, 1., True, '\x41', a trailing comma ...)
		total++
		text = string(gen.LexDamage(t, []byte(text), "lx"))
	}
	return Case{Text: text, Mutations: total}
}

// table enumerates every single mutation of every operation kind.
func table() []Case {
	var out []Case
	emit := func(el *ref.V) {
		out = append(out, Case{Text: ref.Arr(el).Text(false), Mutations: 1})
		// and as the second of two elements, after a valid one
		ok := ref.ObjOf("op", ref.Str("remove"), "path", ref.Str("/z"))
		out = append(out, Case{Text: ref.Arr(ok, el).Text(false), Mutations: 1})
	}
	for _, kind := range opNames {
		base := func() *ref.V {
			o := ref.ObjOf("op", ref.Str(kind), "path", ref.Str("/a/b"))
			if kind == "move" || kind == "copy" {
				o.Set("from", ref.Str("/c"))
			}
			if kind == "add" || kind == "replace" || kind == "test" {
				o.Set("value", ref.ObjOf("k", ref.Arr(ref.Num("1.0"), ref.Null())))
			}
			return o
		}
		out = append(out, Case{Text: ref.Arr(base()).Text(false)})
		for _, name := range []string{"op", "path", "from", "value"} {
			if _, ok := base().Get(name); !ok {
				// member not part of this kind: add it with every type (must be ignored or accepted)
				for _, rt := range append(retypes(), ref.Null()) {
					o := base()
					o.Set(name, rt)
					emit(o)
				}
				continue
			}
			o := base()
			o.Del(name)
			emit(o)
			o = base()
			o.Set(name, ref.Null())
			emit(o)
			for _, rt := range retypes() {
				o = base()
				o.Set(name, rt)
				emit(o)
			}
			for _, rn := range renames[name] {
				o = base()
				i := o.Index(name)
				o.Keys[i] = rn
				emit(o)
			}
			for _, dv := range append(retypes(), ref.Null()) {
				o = base()
				cur, _ := o.Get(name)
				o.Keys = append(o.Keys, name)
				o.Vals = append(o.Vals, dv)
				emit(o)
				o = base()
				o.Keys = append([]string{name}, o.Keys...)
				o.Vals = append([]*ref.V{dv}, o.Vals...)
				emit(o)
				_ = cur
			}
		}
		for _, bo := range badOps {
			o := base()
			o.Set("op", ref.Str(bo))
			emit(o)
		}
		for _, el := range []*ref.V{ref.Null(), ref.Num("1"), ref.Str("add"), ref.Arr(), ref.Arr(base()), ref.Bool(false)} {
			emit(el)
		}
		for _, root := range []*ref.V{base(), ref.Str("x"), ref.Num("1"), ref.Bool(true), ref.Obj()} {
			out = append(out, Case{Text: root.Text(false), Mutations: 1})
		}
	}
	return out
}

var unit = ev.Unit[Case]{
	Name: "decode",
	Rule: "0-4 valid operations (all six kinds, members shuffled, unknown extra members, test with and without value) with 0-3 member mutations on a third of them (delete, null, retype to every JSON type, rename by case/prefix, duplicate with equal or conflicting value at either end, element -> non-object, unknown op string), root -> non-array, arbitrary spelling, occasional byte damage; oracle: accept <=> independent reader parses it and the independent validator accepts every element; nil Patch on reject; on accept Kind/Path/From/ValueInterface equal the decoded members (numbers by literal); non-trivial = exactly one mutation away from valid, or a valid patch of >=2 operations",
	Draw: draw, Check: check,
}

var tableUnit = ev.Unit[Case]{
	Name:  "single-mutation-table",
	Rule:  "exhaustive table: for each of the six kinds x each of op/path/from/value x {delete, null, 8 retypes, case/prefix renames, 9 duplicates at either end}, plus members foreign to the kind with every type, 11 unknown op strings, 6 non-object elements, 5 non-array roots; each as the only element and after a valid element; same oracle; every case is non-trivial (one mutation away)",
	Check: check,
}

func TestProp(t *testing.T)  { ev.RunProp(t, "C11", unit) }
func TestTable(t *testing.T) { ev.RunCases(t, "C11", tableUnit, table()) }
func TestReplay(t *testing.T) {
	ev.Replay(t, map[string]ev.Replayer{unit.Name: unit.Replayer(), tableUnit.Name: tableUnit.Replayer()})
}
