package c11

import (
	"testing"

	"github.com/evanphx/json-patch/v5/xverif/ev"
)

// FuzzDecode: patch texts against the independent validator.
func FuzzDecode(f *testing.F) {
	for _, s := range []string{
		`[{"op":"add","path":"/a","value":null},{"op":"remove","path":"/a"},{"op":"replace","path":"","value":[1]},{"op":"move","from":"/a","path":"/b"},{"op":"copy","from":"/a","path":"/b","x":1},{"op":"test","path":"/a","value":{"b":1.0}}]`,
		`[{"op":"test","path":"/a"}]`, `[{"op":"add","path":"/a"}]`, `[{"op":"move","path":"/a"}]`, `[{"op":"Add","path":"/a","value":1}]`, `[{"path":"/a","value":1}]`,
		`[{"op":"remove","path":null}]`, `[{"op":"remove","path":1}]`, `[{"op":"remove","Path":"/a"}]`, `[{"op":"remove","path":"/a","path":"/b"}]`, `[1]`, `{}`, `[]`, `[{"op":"remove","path":"/a"}] x`, ` [ ] `, `[null]`,
	} {
		f.Add([]byte(s))
	}
	f.Fuzz(func(t *testing.T, b []byte) {
		ev.FuzzCheck(t, "C11", unit, Case{Text: string(b)})
	})
}
