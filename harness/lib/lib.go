// Package lib wraps the calls into the library under test (v5) that several
// property packages share. Every call runs under ev.Safe so that a panic
// becomes an error value the checks can report.
package lib

import (
	"fmt"
	"strconv"
	"strings"

	jp "github.com/evanphx/json-patch/v5"
	"github.com/evanphx/json-patch/v5/xverif/ev"
	"github.com/evanphx/json-patch/v5/xverif/ref"
)

// Options mirrors jp.ApplyOptions in a serialisable form.
type Options struct {
	Neg          bool   `json:"neg"`
	AllowMissing bool   `json:"allow_missing,omitempty"`
	Ensure       bool   `json:"ensure,omitempty"`
	Esc          bool   `json:"escape_html"`
	Limit        int64  `json:"limit,omitempty"`
	Indent       string `json:"indent,omitempty"`
}

// Defaults are the library defaults (EscapeHTML on, negative indices on).
func Defaults() Options { return Options{Neg: true, Esc: true} }

func (o Options) Ref() ref.Opts {
	return ref.Opts{Neg: o.Neg, AllowMissing: o.AllowMissing, Ensure: o.Ensure, Esc: o.Esc, Limit: o.Limit}
}

func (o Options) JP() *jp.ApplyOptions {
	a := jp.NewApplyOptions()
	a.SupportNegativeIndices = o.Neg
	a.AllowMissingPathOnRemove = o.AllowMissing
	a.EnsurePathExistsOnAdd = o.Ensure
	a.EscapeHTML = o.Esc
	a.AccumulatedCopySizeLimit = o.Limit
	return a
}

// Res is the outcome of decode+apply.
type Res struct {
	Out       []byte
	Err       error // error returned by Apply
	DecodeErr error // error returned by DecodePatch
	Panic     error // a recovered panic (a C04 matter, reported by every check that sees one)
}

func (r Res) String() string {
	switch {
	case r.Panic != nil:
		return "PANIC " + r.Panic.Error()
	case r.DecodeErr != nil:
		return "decode error: " + r.DecodeErr.Error()
	case r.Err != nil:
		return "error: " + r.Err.Error()
	}
	return fmt.Sprintf("ok: %s", r.Out)
}

// Apply decodes patch and applies it to doc with the given options.
func Apply(doc, patch string, o Options) (r Res) {
	var p jp.Patch
	r.Panic = ev.Safe(func() { p, r.DecodeErr = jp.DecodePatch([]byte(patch)) })
	if r.Panic != nil || r.DecodeErr != nil {
		return r
	}
	jo := o.JP()
	r.Panic = ev.Safe(func() { r.Out, r.Err = p.ApplyIndentWithOptions([]byte(doc), o.Indent, jo) })
	if r.Panic == nil && !SameOptions(jo, o.JP()) {
		// the caller's options value is an input like any other (C09): every check reports a write to it
		r.Panic = fmt.Errorf("Apply modified the ApplyOptions value it was given: now %+v, was %+v", *jo, *o.JP())
	}
	return r
}

// ParseCase reads a (document, patch) pair with the independent reader. A
// non-empty third result names why the pair is outside every Apply property's
// domain (not an object/array document, duplicate names, not an RFC 6902 patch).
func ParseCase(doc, patch string) (*ref.V, []ref.Op, string) {
	d, err := ref.Parse([]byte(doc))
	if err != nil || !d.IsContainer() || d.HasDup() {
		return nil, nil, "document not a duplicate-free object/array text"
	}
	pt, err := ref.Parse([]byte(patch))
	if err != nil {
		return nil, nil, "patch not well-formed"
	}
	ops, err := ref.OpsFromTree(pt)
	if err != nil {
		return nil, nil, "patch not an RFC 6902 document"
	}
	for _, op := range ops {
		if op.Value != nil && op.Value.HasDup() {
			return nil, nil, "patch value with duplicate names"
		}
	}
	return d, ops, ""
}

// CopyTotals measures the accumulated copy size "as spelled in the output"
// without modelling spellings: for every copy operation k that the reference
// evaluator applies, the patch prefix 0..k is applied by the library with the
// limit disabled, the value the copy created is located in that output (by the
// location the reference evaluator put it at) and the length of its text there
// is its size (a copied null counts 0..4). lo[i], hi[i] are the bounds of the
// running total after operation i. It stops at the first operation the
// reference evaluator cannot apply (n = number of operations measured).
// A non-empty why means the case cannot be measured (out of domain); err
// reports a library failure on a prefix that the reference evaluator applies.
func CopyTotals(docText, patchText string, o Options, apply func(doc, patch string, o Options) Res) (lo, hi []int64, n int, why string, err error) {
	doc, ops, why := ParseCase(docText, patchText)
	if why != "" {
		return nil, nil, 0, why, nil
	}
	pt, _ := ref.Parse([]byte(patchText))
	ro := o.Ref()
	ro.Limit = 0
	free := o
	free.Limit = 0
	st := &ref.State{Root: doc.Clone()}
	var curLo, curHi int64
	for i, op := range ops {
		r := ref.Step(st, op, ro)
		if r.Cause == ref.COutOfDomain {
			return lo, hi, i, "out of domain: " + r.Why, nil
		}
		if r.Cause != ref.COK {
			return lo, hi, i, "", nil
		}
		if r.Copied != nil {
			steps, ok := ref.PathOf(st.Root, r.Copied)
			if !ok {
				return lo, hi, i, "copied value not found in the reference document", nil
			}
			prefix := "["
			for j := 0; j <= i; j++ {
				if j > 0 {
					prefix += ","
				}
				prefix += patchText[pt.Arr[j].S:pt.Arr[j].E]
			}
			prefix += "]"
			got := apply(docText, prefix, free)
			if got.Panic != nil {
				return lo, hi, i, "", got.Panic
			}
			if got.DecodeErr != nil || got.Err != nil {
				return lo, hi, i, "", fmt.Errorf("operations 0..%d are applicable but Apply (limit disabled) failed: %v %v", i, got.DecodeErr, got.Err)
			}
			out, perr := ref.Parse(got.Out)
			if perr != nil {
				return lo, hi, i, "", fmt.Errorf("output of operations 0..%d is not well-formed: %q", i, got.Out)
			}
			node := ref.Follow(out, steps)
			if node == nil || !ref.Equal(node, r.Copied) {
				return lo, hi, i, "", fmt.Errorf("output of operations 0..%d does not hold the copied value %s where the reference evaluator put it: %s", i, r.Copied, got.Out)
			}
			if node.K == ref.KNull {
				curHi += 4
			} else {
				curLo += int64(node.E - node.S)
				curHi += int64(node.E - node.S)
			}
		}
		lo, hi = append(lo, curLo), append(hi, curHi)
	}
	return lo, hi, len(ops), "", nil
}

// CopySizes returns the measured size bounds of the successive copy operations
// (see CopyTotals) in the form ref.Opts.CopySizes takes.
func CopySizes(docText, patchText string, o Options, apply func(doc, patch string, o Options) Res) (sizes [][2]int64, why string, err error) {
	lo, hi, n, why, err := CopyTotals(docText, patchText, o, apply)
	if err != nil {
		return nil, "", err
	}
	_, ops, w2 := ParseCase(docText, patchText)
	if w2 != "" {
		return nil, w2, nil
	}
	var pl, ph int64
	for i := 0; i < n && i < len(lo); i++ {
		if ops[i].Op == "copy" {
			sizes = append(sizes, [2]int64{lo[i] - pl, hi[i] - ph})
		}
		pl, ph = lo[i], hi[i]
	}
	// why (an out-of-domain operation met while measuring) only matters if the
	// evaluation gets that far; the caller's own evaluation will say so too
	return sizes, "", nil
}

// PrefixText returns the patch document made of the first k operations of
// patchText, each in its original spelling.
func PrefixText(patchText string, k int) string {
	pt, err := ref.Parse([]byte(patchText))
	if err != nil || pt.K != ref.KArr {
		return patchText
	}
	out := "["
	for j := 0; j < k && j < len(pt.Arr); j++ {
		if j > 0 {
			out += ","
		}
		out += patchText[pt.Arr[j].S:pt.Arr[j].E]
	}
	return out + "]"
}

// BigIndex: the pointer holds a numeric reference token above 10^4. Under
// EnsurePathExistsOnAdd such an index makes the library (and any model of it)
// pad an array element by element; C04's quantifier places it outside the
// stated domain, and every check that sets the option skips such cases.
func BigIndex(path string) bool {
	for _, tk := range strings.Split(path, "/") {
		d := strings.TrimLeft(tk, "+-")
		if d == "" || strings.Trim(d, "0123456789") != "" {
			continue
		}
		if n, err := strconv.Atoi(d); err != nil || n > 10000 {
			return true
		}
	}
	return false
}

// SameOptions compares the exported fields of two ApplyOptions values (field by
// field, so that the harness still builds against a tree that adds fields).
func SameOptions(a, b *jp.ApplyOptions) bool {
	return a.SupportNegativeIndices == b.SupportNegativeIndices && a.AccumulatedCopySizeLimit == b.AccumulatedCopySizeLimit &&
		a.AllowMissingPathOnRemove == b.AllowMissingPathOnRemove && a.EnsurePathExistsOnAdd == b.EnsurePathExistsOnAdd && a.EscapeHTML == b.EscapeHTML
}
