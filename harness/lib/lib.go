// Package lib wraps the calls into the library under test (v5) that several
// property packages share. Every call runs under ev.Safe so that a panic
// becomes an error value the checks can report.
package lib

import (
	"fmt"

	jp "github.com/evanphx/json-patch/v5"
	"github.com/evanphx/json-patch/v5/xverif/ev"
	"github.com/evanphx/json-patch/v5/xverif/ref"
)

// Options mirrors jp.ApplyOptions in a serialisable form.
type Options struct {
	Neg          bool   `json:"neg"`
	AllowMissing bool   `json:"allow_missing,omitempty"`
	Ensure       bool   `json:"ensure,omitempty"`
	Esc          bool   `json:"escape_html"`
	Limit        int64  `json:"limit,omitempty"`
	Indent       string `json:"indent,omitempty"`
}

// Defaults are the library defaults (EscapeHTML on, negative indices on).
func Defaults() Options { return Options{Neg: true, Esc: true} }

func (o Options) Ref() ref.Opts {
	return ref.Opts{Neg: o.Neg, AllowMissing: o.AllowMissing, Ensure: o.Ensure, Esc: o.Esc, Limit: o.Limit}
}

func (o Options) JP() *jp.ApplyOptions {
	a := jp.NewApplyOptions()
	a.SupportNegativeIndices = o.Neg
	a.AllowMissingPathOnRemove = o.AllowMissing
	a.EnsurePathExistsOnAdd = o.Ensure
	a.EscapeHTML = o.Esc
	a.AccumulatedCopySizeLimit = o.Limit
	return a
}

// Res is the outcome of decode+apply.
type Res struct {
	Out       []byte
	Err       error // error returned by Apply
	DecodeErr error // error returned by DecodePatch
	Panic     error // a recovered panic (a C04 matter, reported by every check that sees one)
}

func (r Res) String() string {
	switch {
	case r.Panic != nil:
		return "PANIC " + r.Panic.Error()
	case r.DecodeErr != nil:
		return "decode error: " + r.DecodeErr.Error()
	case r.Err != nil:
		return "error: " + r.Err.Error()
	}
	return fmt.Sprintf("ok: %s", r.Out)
}

// Apply decodes patch and applies it to doc with the given options.
func Apply(doc, patch string, o Options) (r Res) {
	var p jp.Patch
	r.Panic = ev.Safe(func() { p, r.DecodeErr = jp.DecodePatch([]byte(patch)) })
	if r.Panic != nil || r.DecodeErr != nil {
		return r
	}
	r.Panic = ev.Safe(func() { r.Out, r.Err = p.ApplyIndentWithOptions([]byte(doc), o.Indent, o.JP()) })
	return r
}

// ParseCase reads a (document, patch) pair with the independent reader. A
// non-empty third result names why the pair is outside every Apply property's
// domain (not an object/array document, duplicate names, not an RFC 6902 patch).
func ParseCase(doc, patch string) (*ref.V, []ref.Op, string) {
	d, err := ref.Parse([]byte(doc))
	if err != nil || !d.IsContainer() || d.HasDup() {
		return nil, nil, "document not a duplicate-free object/array text"
	}
	pt, err := ref.Parse([]byte(patch))
	if err != nil {
		return nil, nil, "patch not well-formed"
	}
	ops, err := ref.OpsFromTree(pt)
	if err != nil {
		return nil, nil, "patch not an RFC 6902 document"
	}
	for _, op := range ops {
		if op.Value != nil && op.Value.HasDup() {
			return nil, nil, "patch value with duplicate names"
		}
	}
	return d, ops, ""
}
