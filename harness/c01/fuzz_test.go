package c01

import (
	"testing"

	"github.com/evanphx/json-patch/v5/xverif/ev"
)

// FuzzApply: coverage-guided search over (document, patch) bytes with the
// reference evaluator as oracle (cases outside the domain are excluded by check).
func FuzzApply(f *testing.F) {
	docs := []string{`{"a":{"b":[1,2,{"c":null}]},"x/y":1.0,"m~n":"<&>"}`, `[[1,2],{"a":null},"s",-0]`, `{}`, `[]`, `{"a":null}`}
	patches := []string{
		`[{"op":"add","path":"/a/b/1","value":{"k":[null]}},{"op":"copy","from":"/a","path":"/z"},{"op":"move","from":"/a/b/0","path":"/a/b/-"},{"op":"test","path":"/z/b/0","value":1},{"op":"remove","path":"/x~1y"},{"op":"replace","path":"/m~0n","value":null}]`,
		`[{"op":"add","path":"/0/-1","value":3},{"op":"remove","path":"/-1"},{"op":"copy","from":"","path":"/0"},{"op":"test","path":"/1/a","value":null}]`,
		`[{"op":"add","path":"","value":[1]},{"op":"add","path":"/1","value":{"a":1}},{"op":"move","from":"/1/a","path":"/0"}]`,
		`[]`,
	}
	for _, d := range docs {
		for _, p := range patches {
			f.Add([]byte(d), []byte(p), true)
			f.Add([]byte(d), []byte(p), false)
		}
	}
	f.Fuzz(func(t *testing.T, doc, patch []byte, neg bool) {
		ev.FuzzCheck(t, "C01", unit, Case{Doc: string(doc), Patch: string(patch), Neg: neg})
	})
}
