// C01 — RFC 6902 application computes the RFC result (v5).
package c01

import (
	"strings"
	"fmt"
	"testing"

	"github.com/evanphx/json-patch/v5/xverif/ev"
	"github.com/evanphx/json-patch/v5/xverif/gen"
	"github.com/evanphx/json-patch/v5/xverif/lib"
	"github.com/evanphx/json-patch/v5/xverif/ref"
	"pgregory.net/rapid"
)

// Case is one (document, patch, option) triple, as texts.
type Case struct {
	Doc   string `json:"doc"`
	Patch string `json:"patch"`
	Neg   bool   `json:"support_negative_indices"`
	// NoEsc: ApplyOptions.EscapeHTML off (a matter of spelling only: the value must not depend on it)
	NoEsc bool `json:"escape_html_off,omitempty"`
}

var unit = ev.Unit[Case]{
	Name: "apply",
	Rule: "document (object/array root, depth<=4, pools of index-like/escaped/non-ASCII names, exotic number literals, nulls anywhere) x state-aware sequence of 0-8 operations (each drawn against the model's current document; ~12% near-miss paths; up to 2 operations after the first failing one) x SupportNegativeIndices; non-trivial = the model applied >=2 operations before its verdict, or the first failure is at index >=1, or it is a failure other than a failed test at index 0; distinct = distinct serialised (doc, patch, option)",
	Draw: func(t *rapid.T) Case {
		if gen.OneIn(t, 150, "bulk") {
			// most members of one wide object taken away in one call
			d, ops, _ := gen.Bulk(t)
			return Case{Doc: d.Text(false), Patch: ref.OpsText(ops, false), Neg: rapid.Bool().Draw(t, "bneg")}
		}
		if gen.OneIn(t, 400, "manyops") {
			d, ops := gen.ManyOps(t)
			return Case{Doc: d.Text(false), Patch: ref.OpsText(ops, false), Neg: rapid.Bool().Draw(t, "mneg")}
		}
		doc := gen.Default.Root().Draw(t, "doc")
		neg := rapid.Bool().Draw(t, "neg")
		g := gen.NewOpGen(neg)
		if rapid.IntRange(0, 3).Draw(t, "calm") != 0 {
			g.Calm()
		}
		g.Swarm(t)
		maxOps := 8
		if gen.OneIn(t, 15, "longseq") {
			maxOps = 24 // the same container touched many times
		}
		var ops []ref.Op
		if gen.OneIn(t, 20, "alias") {
			// walk into a nested value, duplicate it, edit deep inside one side, test both
			ops = g.Alias(t, doc, ref.Opts{Neg: neg})
		} else {
			ops = g.Seq(t, doc, ref.Opts{Neg: neg}, 0, maxOps, 2)
		}
		esc := rapid.Bool().Draw(t, "spell")
		dt, pt := gen.Texts(t, doc, ref.OpsTree(ops), esc, "sp")
		return Case{Doc: dt, Patch: pt, Neg: neg, NoEsc: gen.OneIn(t, 4, "noesc")}
	},
	Check: check,
}

func check(c Case) ev.Verdict {
	doc, err := ref.Parse([]byte(c.Doc))
	if err != nil || !doc.IsContainer() || doc.HasDup() {
		return ev.Excluded("document not a duplicate-free object/array text")
	}
	pt, err := ref.Parse([]byte(c.Patch))
	if err != nil {
		return ev.Excluded("patch not well-formed")
	}
	ops, err := ref.OpsFromTree(pt)
	if err != nil {
		return ev.Excluded("patch not an RFC 6902 document")
	}
	o := lib.Defaults()
	o.Neg = c.Neg
	o.Esc = !c.NoEsc
	want := ref.Apply(doc, ops, o.Ref())
	got := lib.Apply(c.Doc, c.Patch, o)
	if want.OutOfDomain() {
		return ev.Excluded("out of domain: "+want.Res.Why, "ood")
	}
	if got.Panic != nil {
		return ev.Verdict{Err: got.Panic}
	}
	if got.DecodeErr != nil {
		return ev.Fail("DecodePatch rejected a valid patch: %v", got.DecodeErr)
	}
	v := ev.Verdict{}
	negc := "neg=off"
	if c.Neg {
		negc = "neg=on"
	}
	if c.NoEsc {
		negc += "/escape-html-off"
	}
	if !want.OK() {
		op := ops[want.FailAt]
		v.Classes = []string{fmt.Sprintf("fail/%s/%s", op.Op, want.Res.Cause), negc, fmt.Sprintf("failat=%d", min(want.FailAt, 4))}
		v.NonTrivial = want.FailAt >= 1 || want.Res.Cause != ref.CTestUnequal
		if got.Err == nil {
			v.Err = fmt.Errorf("reference evaluation fails at operation %d (%s: %s) but Apply succeeded with %s", want.FailAt, op.Op, want.Res.Cause, got.Out)
		}
		return v
	}
	nops := len(ops)
	switch {
	case nops > 1000:
		nops = 1001
	case nops > 24:
		nops = 25
	}
	v.Classes = []string{fmt.Sprintf("ok/nops=%d", nops), negc}
	// the shape on which a duplicate that shares structure with its source shows
	deep := false
	for i, a := range ops {
		if deep || a.Op != "copy" && a.Op != "move" {
			continue
		}
		for _, b := range ops[i+1:] {
			if b.Op == "test" {
				continue
			}
			for _, side := range []string{a.Path, a.From} {
				for _, p := range []string{b.Path, b.From} {
					if side != "" && strings.HasPrefix(p, side+"/") && strings.Count(p[len(side):], "/") >= 2 {
						deep = true
					}
				}
			}
		}
	}
	if deep {
		v.Classes = append(v.Classes, "edit-two-levels-below-a-copied-or-moved-value")
	}
	v.NonTrivial = want.Applied >= 2
	if got.Err != nil {
		v.Err = fmt.Errorf("reference evaluation succeeds (%s) but Apply failed: %v", want.Doc, got.Err)
		return v
	}
	out, err := ref.Parse(got.Out)
	if err != nil {
		v.Err = fmt.Errorf("output is not well-formed JSON: %q: %v", got.Out, err)
		return v
	}
	if !ref.Equal(out, want.Doc) {
		v.Err = fmt.Errorf("result differs from the RFC result\n got: %s\nwant: %s", got.Out, want.Doc)
	}
	return v
}

func TestProp(t *testing.T)   { ev.RunProp(t, "C01", unit) }
func TestReplay(t *testing.T) { ev.Replay(t, map[string]ev.Replayer{unit.Name: unit.Replayer()}) }
