// Package kf names the known (unrepaired) findings listed in
// /verif/KNOWN_FINDINGS.txt. A check that meets a failing case of exactly the
// listed input class counts it under excluded["known:<key>"] and carries on,
// so that the search is not ended by it; any other failure is a violation.
// The pinned input of each finding is replayed by the driver on every run and
// yields the KNOWN-FINDING line while it still fails.
package kf

// ApplyEmptyDocument: Patch.Apply / ApplyIndent / ApplyWithOptions /
// ApplyIndentWithOptions given a zero-length document return (doc, nil)
// instead of an error, although the empty byte string is not a JSON text
// (v5/patch.go: `if len(doc) == 0 { return doc, nil }`).
const ApplyEmptyDocument = "apply-empty-document"

// Excluded is the exclusion label of a known finding.
func Excluded(key string) string { return "known:" + key }
