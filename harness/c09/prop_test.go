// C09 — calls are pure: inputs are never modified and history does not matter
// (v5 module and the staged legacy root package).
//
// A case is a history: a pool of input buffers and a sequence of API calls
// over it. The oracles are invariants over the history (every input buffer
// with its spare capacity, every decoded Patch and every earlier output is
// unchanged after every step), a memo (the same call signature gives the same
// result wherever it occurs in the history, forwards and again backwards at
// the end, with a reused or a freshly decoded Patch), and the history-free
// answer computed by a fresh process that performs only that call.
package c09

import (
	"bytes"
	"encoding/json"
	"fmt"
	"os"
	"os/exec"
	"strings"
	"sync"
	"testing"
	"unsafe"

	"github.com/evanphx/json-patch/v5/xverif/calls"
	"github.com/evanphx/json-patch/v5/xverif/ev"
	"github.com/evanphx/json-patch/v5/xverif/gen"
	"github.com/evanphx/json-patch/v5/xverif/lib"
	"pgregory.net/rapid"
)

// Case is one history.
type Case struct {
	Pkg   string        `json:"package"`
	Bufs  []calls.Text  `json:"buffers"`
	Calls []calls.Call  `json:"calls"`
	Iso   []int         `json:"isolated"` // indices of calls also evaluated in a fresh process
	Opts  []lib.Options `json:"-"`
	// Limit: the package-level AccumulatedCopySizeLimit in force during the whole history
	// (assigned before the first call; the only way the legacy package takes a limit).
	Limit int64 `json:"package_copy_limit,omitempty"`
}

func draw(pkg string, maxIso int) func(*rapid.T) Case {
	return func(t *rapid.T) Case {
		pool := calls.DrawPool(t, pkg == "legacy")
		opts := calls.DrawOptionSets(t)
		n := gen.Uniform(t, 4, 40, "ncalls")
		c := Case{Pkg: pkg, Bufs: pool.Bufs}
		if gen.OneIn(t, 4, "pkglimit") {
			c.Limit = rapid.SampledFrom([]int64{8, 30, 60, 150, -1}).Draw(t, "pkglimitv")
		}
		for i := 0; i < n; i++ {
			c.Calls = append(c.Calls, calls.DrawCallGC(t, pool, opts))
		}
		k := gen.Uniform(t, 0, maxIso, "niso")
		for i := 0; i < k; i++ {
			c.Iso = append(c.Iso, gen.Uniform(t, 0, n-1, "iso"))
		}
		return c
	}
}

// ---------- the isolated-process oracle ----------

type isoReq struct {
	Limit int64       `json:"package_copy_limit,omitempty"`
	Pkg  string       `json:"package"`
	Call calls.Call   `json:"call"`
	Bufs []calls.Text `json:"buffers"` // only A and B are filled in
}

var isoCache sync.Map // signature -> calls.Result

// isolated performs call c as the only call of a fresh process (this test
// binary re-executed with VERIF_C09_EVAL set) and returns its result.
func isolated(pkg string, limit int64, c calls.Call, bufs []calls.Text) (calls.Result, error) {
	key := fmt.Sprintf("%s\x00%d\x00%s", pkg, limit, c.Sig(bufs))
	if r, ok := isoCache.Load(key); ok {
		return r.(calls.Result), nil
	}
	req := isoReq{Pkg: pkg, Limit: limit, Call: c, Bufs: make([]calls.Text, len(bufs))}
	req.Bufs[c.A], req.Bufs[c.B] = bufs[c.A], bufs[c.B]
	in, _ := json.Marshal(req)
	cmd := exec.Command(os.Args[0], "-test.run", "^TestEvalCall$", "-test.count", "1")
	cmd.Env = append(os.Environ(), "VERIF_C09_EVAL=1", "VERIF_PART=", "VERIF_FAIL=")
	cmd.Stdin = bytes.NewReader(in)
	out, err := cmd.Output()
	if err != nil {
		return calls.Result{}, fmt.Errorf("isolated evaluation did not run: %v: %s", err, out)
	}
	i := bytes.Index(out, []byte("RESULT "))
	if i < 0 {
		return calls.Result{}, fmt.Errorf("isolated evaluation printed no result: %s", out)
	}
	line := out[i+7:]
	if j := bytes.IndexByte(line, '\n'); j >= 0 {
		line = line[:j]
	}
	var r calls.Result
	if err := json.Unmarshal(line, &r); err != nil {
		return calls.Result{}, fmt.Errorf("isolated evaluation result unreadable: %v: %s", err, line)
	}
	isoCache.Store(key, r)
	return r, nil
}

// TestEvalCall is the child side: one call, nothing before it.
func TestEvalCall(t *testing.T) {
	if os.Getenv("VERIF_C09_EVAL") == "" {
		t.Skip("helper for the isolated-process oracle")
	}
	var req isoReq
	if err := json.NewDecoder(os.Stdin).Decode(&req); err != nil {
		t.Fatalf("bad request: %v", err)
	}
	api := calls.ByName(req.Pkg)
	if req.Limit != 0 {
		defer api.Defaults(true, req.Limit)()
	}
	c := req.Call
	var patch any
	var perr error
	if c.NeedsPatch() {
		patch, perr = api.Decode(req.Bufs[c.B])
	}
	r := calls.Exec(api, c, req.Bufs[c.A], req.Bufs[c.B], patch, perr, nil)
	b, _ := json.Marshal(r)
	fmt.Printf("RESULT %s\n", b)
}

// aliasesInput: out lies inside the storage of one of the input buffers (some
// functions hand an argument back, e.g. a non-object merge patch): writing to
// it would be the caller modifying its own input.
func aliasesInput(out []byte, bufs []*calls.Buf) bool {
	if len(out) == 0 {
		return false
	}
	p := uintptr(unsafe.Pointer(&out[0]))
	for _, b := range bufs {
		full := b.B[:cap(b.B)]
		if len(full) == 0 {
			continue
		}
		base := uintptr(unsafe.Pointer(&full[0]))
		if p >= base && p < base+uintptr(len(full)) {
			return true
		}
	}
	return false
}

// ---------- the history check ----------

type decoded struct {
	p    any
	err  error
	snap string
}

type kept struct {
	call int
	out  []byte // what the library returned (the slice itself)
	want []byte // its content at the time
}

// keptErr: an error value a call returned, and what it said then.
type keptErr struct {
	call int
	err  error
	text string
}

func check(c Case) ev.Verdict {
	if len(c.Bufs) == 0 || len(c.Calls) == 0 {
		return ev.Excluded("empty history")
	}
	for _, cl := range c.Calls {
		if cl.A < 0 || cl.A >= len(c.Bufs) || cl.B < 0 || cl.B >= len(c.Bufs) {
			return ev.Excluded("call refers to a buffer that does not exist")
		}
	}
	api := calls.ByName(c.Pkg)
	if c.Limit != 0 {
		defer api.Defaults(true, c.Limit)()
	}
	big := calls.BigIndexPatches(c.Bufs)
	bufs := make([]*calls.Buf, len(c.Bufs))
	for i, b := range c.Bufs {
		bufs[i] = calls.NewBuf(b)
	}
	oc := calls.NewOptsCache()   // one ApplyOptions value per option set, reused by every call naming it
	shared := map[int]*decoded{} // buffer index -> the Patch decoded from it first
	var patches []*decoded       // every Patch value alive in this history
	memo := map[string]calls.Result{}
	memoAt := map[string]int{}
	var outs []kept
	var errs []keptErr
	applied := map[int]map[int]bool{} // patch buffer -> documents it was applied to through the shared Patch
	sawFailure, failThenOK := false, false
	repeats := 0

	invariants := func(step int, cl calls.Call) error {
		for i, b := range bufs {
			if err := b.Intact(); err != nil {
				return fmt.Errorf("after call %d (%s): buffer %d: %v", step, cl.Fn, i, err)
			}
		}
		for _, d := range patches {
			if d.err == nil {
				if now := api.Snapshot(d.p); now != d.snap {
					return fmt.Errorf("after call %d (%s): a decoded Patch value was modified\n now: %s\n was: %s", step, cl.Fn, now, d.snap)
				}
			}
		}
		if err := oc.Intact(); err != nil {
			return fmt.Errorf("after call %d (%s): %v", step, cl.Fn, err)
		}
		for _, k := range outs {
			if !bytes.Equal(k.out, k.want) {
				return fmt.Errorf("after call %d (%s): the bytes returned by call %d changed: now %q, were %q", step, cl.Fn, k.call, k.out, k.want)
			}
		}
		if c.Limit != 0 {
			if n, l := api.ReadDefaults(); !n || l != c.Limit {
				return fmt.Errorf("after call %d (%s): the package-level defaults were rewritten: SupportNegativeIndices=%v AccumulatedCopySizeLimit=%d, assigned true and %d", step, cl.Fn, n, l, c.Limit)
			}
		}
		for _, k := range errs {
			if now := k.err.Error(); now != k.text {
				return fmt.Errorf("after call %d (%s): the error value returned by call %d changed what it says: now %q, was %q", step, cl.Fn, k.call, now, k.text)
			}
		}
		return nil
	}
	decode := func(bi int, fresh bool) *decoded {
		if d, ok := shared[bi]; ok && !fresh {
			return d
		}
		d := &decoded{}
		if p := ev.Safe(func() { d.p, d.err = api.Decode(bufs[bi].B) }); p != nil {
			d.err = fmt.Errorf("PANIC %v", p)
		}
		if d.err == nil {
			d.snap = api.Snapshot(d.p)
			patches = append(patches, d)
		}
		if _, ok := shared[bi]; !ok {
			shared[bi] = d
		}
		return d
	}
	run := func(step int, cl calls.Call) (calls.Result, error) {
		if cl.Skips(big) {
			return calls.Result{}, nil // index above 10^4 under EnsurePathExistsOnAdd: outside the stated domain
		}
		var d *decoded
		if cl.NeedsPatch() {
			d = decode(cl.B, cl.Fresh)
		} else {
			d = &decoded{}
		}
		if !cl.Fresh {
			oc.Prepare(cl) // Fresh also means fresh options
		}
		var use *calls.OptsCache
		if !cl.Fresh {
			use = oc
		}
		r := calls.Exec(api, cl, bufs[cl.A].B, bufs[cl.B].B, d.p, d.err, use)
		if r.Panic != "" {
			return r, fmt.Errorf("call %d (%s) panicked: %s", step, cl.Fn, r.Panic)
		}
		if len(r.Out) > 0 {
			lib := []byte(r.Out) // the slice the library handed back
			r.Out = append(calls.Text{}, r.Out...)
			if !aliasesInput(lib, bufs) {
				// the caller owns what it was given: overwrite it. A library that kept or shares that
				// memory (a constant returned for "no change", a pooled buffer) shows it in a later result
				for i := range lib {
					lib[i] = 'X'
				}
			}
			outs = append(outs, kept{step, lib, append([]byte{}, lib...)})
		}
		if r.ErrVal != nil && len(errs) < 64 {
			errs = append(errs, keptErr{step, r.ErrVal, r.Err})
		}
		if err := invariants(step, cl); err != nil {
			return r, err
		}
		sig := cl.Sig(c.Bufs)
		if prev, ok := memo[sig]; ok {
			repeats++
			if !calls.Same(prev, r, cl.ByValue()) {
				return r, fmt.Errorf("call %d (%s) gave a different result than the same call at step %d of this history\n now: %s\n was: %s", step, cl.Fn, memoAt[sig], r, prev)
			}
		} else {
			memo[sig], memoAt[sig] = r, step
		}
		return r, nil
	}

	for i, cl := range c.Calls {
		r, err := run(i, cl)
		if err != nil {
			return ev.Verdict{Err: err}
		}
		failed := r.IsErr || (cl.Fn == calls.FEqual && !r.Bool)
		if failed {
			sawFailure = true
		} else if sawFailure {
			failThenOK = true
		}
		if cl.NeedsPatch() && !cl.Fresh && cl.Fn != calls.FAccessors && !r.IsErr {
			if applied[cl.B] == nil {
				applied[cl.B] = map[int]bool{}
			}
			applied[cl.B][cl.A] = true
		}
	}
	// the same calls once more, in reverse order: every signature is now in the memo
	for i := len(c.Calls) - 1; i >= 0; i-- {
		if _, err := run(len(c.Calls)+(len(c.Calls)-1-i), c.Calls[i]); err != nil {
			return ev.Verdict{Err: fmt.Errorf("(second, reversed pass over the history) %v", err)}
		}
	}
	// the history-free answer of a fresh process
	for _, i := range c.Iso {
		if i < 0 || i >= len(c.Calls) {
			continue
		}
		cl := c.Calls[i]
		if cl.Skips(big) {
			continue
		}
		want, err := isolated(c.Pkg, c.Limit, cl, c.Bufs)
		if err != nil {
			return ev.Excluded("isolated evaluation unavailable: " + err.Error())
		}
		if got := memo[cl.Sig(c.Bufs)]; !calls.Same(want, got, cl.ByValue()) {
			return ev.Fail("call %d (%s) gave a different result inside this history than as the only call of a fresh process\n in history: %s\n alone: %s", i, cl.Fn, got, want)
		}
	}
	reused := false
	for _, docs := range applied {
		if len(docs) >= 2 {
			reused = true
		}
	}
	v := ev.Verdict{NonTrivial: reused && failThenOK}
	v.Classes = append(v.Classes, fmt.Sprintf("calls=%d", 10*(len(c.Calls)/10)), fmt.Sprintf("distinct-signatures=%d", 5*(len(memo)/5)))
	if reused {
		v.Classes = append(v.Classes, "patch-reused-on>=2-docs")
	}
	if failThenOK {
		v.Classes = append(v.Classes, "success-after-failure")
	}
	if len(c.Iso) > 0 {
		v.Classes = append(v.Classes, "with-isolated-oracle")
	}
	if c.Limit != 0 {
		v.Classes = append(v.Classes, "package-copy-limit-in-force")
		n := 0
		for _, k := range errs {
			if strings.Contains(k.text, "exceeding the limit") {
				n++
			}
		}
		if n >= 2 {
			v.Classes = append(v.Classes, "two-calls-stopped-by-the-copy-limit")
		}
	}
	if repeats > len(c.Calls) {
		v.Classes = append(v.Classes, "signature-repeated-in-forward-pass")
	}
	return v
}

const rule = "history = pool of 4-11 input buffers (documents that are spellings/mutations of one another, RFC 6902 patches drawn state-aware against them, merge patches, malformed texts; each allocated with 24 sentinel bytes of spare capacity) x 4-40 calls drawn from DecodePatch, Apply, ApplyIndent, ApplyWithOptions, ApplyIndentWithOptions, operation accessors, MergePatch, MergeMergePatches, CreateMergePatch, Equal (and, one step in 25, two garbage collections, which empty the codec's pools) with arguments mostly in role and sometimes any buffer in any role; one Patch value per patch buffer is decoded once and reused (1 call in 5 decodes afresh); every byte slice a call returns is overwritten by the harness right away (the caller owns it; slices that alias an input buffer are left alone) and must stay as overwritten; every error value a call returns is kept and must say the same after every later call; one history in four runs under a package-level AccumulatedCopySizeLimit (8-150 or -1; also in the isolated process), which the library must leave as assigned; one pool in twelve holds a document nested 1 100 / 2 100 levels; the history is run forwards and then again in reverse order; up to 3 (v5) / 2 (legacy) calls are also evaluated as the only call of a fresh process; non-trivial = one shared Patch value was applied successfully to >=2 different documents and a failing call (error, or Equal=false) precedes a successful one; distinct = distinct serialised history"

var unitV5 = ev.Unit[Case]{Name: "history-v5", Rule: rule, Draw: draw("v5", 3), Check: check}
var unitLegacy = ev.Unit[Case]{Name: "history-legacy", Rule: rule, Draw: draw("legacy", 2), Check: check}

func TestProp(t *testing.T)       { ev.RunProp(t, "C09", unitV5) }
func TestPropLegacy(t *testing.T) { ev.RunProp(t, "C09", unitLegacy) }
func TestReplay(t *testing.T) {
	ev.Replay(t, map[string]ev.Replayer{unitV5.Name: unitV5.Replayer(), unitLegacy.Name: unitLegacy.Replayer()})
}
