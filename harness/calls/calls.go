// Package calls is the call machinery shared by the history property (C09) and
// the concurrency property (C10): a serialisable description of one API call
// over a pool of input buffers, its execution against the v5 module or the
// staged legacy package, a comparable result, deep snapshots of decoded Patch
// values and sentinel-guarded buffers.
package calls

import (
	"bytes"
	"encoding/base64"
	"encoding/json"
	"fmt"
	"runtime"
	"sort"
	"strings"
	"unicode/utf8"

	jl "github.com/evanphx/json-patch"
	jp "github.com/evanphx/json-patch/v5"
	ijson "github.com/evanphx/json-patch/v5/internal/json"
	"github.com/evanphx/json-patch/v5/xverif/ev"
	"github.com/evanphx/json-patch/v5/xverif/gen"
	"github.com/evanphx/json-patch/v5/xverif/lib"
	"github.com/evanphx/json-patch/v5/xverif/ref"
	"pgregory.net/rapid"
)

// Text is a byte string that serialises as a JSON string when it is valid
// UTF-8 (readable samples) and as {"b64": ...} otherwise (lossless).
type Text []byte

func (x Text) MarshalJSON() ([]byte, error) {
	if utf8.Valid(x) {
		return json.Marshal(string(x))
	}
	return json.Marshal(map[string]string{"b64": base64.StdEncoding.EncodeToString(x)})
}

func (x *Text) UnmarshalJSON(b []byte) error {
	var s string
	if json.Unmarshal(b, &s) == nil {
		*x = Text(s)
		return nil
	}
	var m map[string]string
	if err := json.Unmarshal(b, &m); err != nil {
		return err
	}
	d, err := base64.StdEncoding.DecodeString(m["b64"])
	*x = d
	return err
}

// Function names of a Call.
const (
	FDecode      = "DecodePatch"
	FApply       = "Apply"
	FApplyIndent = "ApplyIndent"
	FApplyOpts   = "ApplyWithOptions"
	FApplyIndOpt = "ApplyIndentWithOptions"
	FAccessors   = "Accessors" // Kind/Path/From/ValueInterface of every operation
	FMerge       = "MergePatch"
	FMergeMerge  = "MergeMergePatches"
	FCreate      = "CreateMergePatch"
	FEqual       = "Equal"
	// FGC is not a library call: two garbage collections, which empty every
	// sync.Pool, so that the next calls meet cold pooled decoder/encoder states
	// in the middle of a history.
	FGC = "(runtime.GC twice)"
)

// Call is one API call; A and B index the buffer pool. For the Apply family
// and Accessors, B is the buffer holding the patch text and A the document.
type Call struct {
	Fn     string       `json:"fn"`
	A      int          `json:"a"`
	B      int          `json:"b"`
	Indent string       `json:"indent,omitempty"`
	Opts   *lib.Options `json:"options,omitempty"`
	// Fresh: decode the patch anew for this call instead of reusing the Patch
	// value decoded from that buffer earlier (the result must not depend on it).
	Fresh bool `json:"fresh,omitempty"`
}

// Sig is the call's signature: function and argument values (not slots).
func (c Call) Sig(bufs []Text) string {
	var sb strings.Builder
	sb.WriteString(c.Fn)
	sb.WriteByte(0)
	if c.Fn == FGC {
		return sb.String()
	}
	if c.Fn != FDecode && c.Fn != FAccessors {
		sb.Write(bufs[c.A])
	}
	sb.WriteByte(0)
	sb.Write(bufs[c.B])
	sb.WriteByte(0)
	switch c.Fn {
	case FApplyIndent, FApplyIndOpt:
		sb.WriteString(c.Indent)
	}
	sb.WriteByte(0)
	switch c.Fn {
	case FApplyOpts, FApplyIndOpt:
		if c.Opts != nil {
			fmt.Fprintf(&sb, "%+v", *c.Opts)
		}
	}
	return sb.String()
}

// ByValue: functions whose output bytes are not determined by the property
// (new members come out in a map order); their results are compared as JSON
// values. Everything else is compared byte for byte.
func (c Call) ByValue() bool { return c.Fn == FMerge || c.Fn == FMergeMerge }

// Result of a call in comparable form.
type Result struct {
	Err   string `json:"err,omitempty"`
	IsErr bool   `json:"is_err,omitempty"`
	Out   Text   `json:"out,omitempty"`
	Nil   bool   `json:"nil_out,omitempty"`
	Bool  bool   `json:"bool,omitempty"`
	Snap  string `json:"snap,omitempty"` // DecodePatch / Accessors: what was decoded
	Panic string `json:"panic,omitempty"`
	// ErrVal: the error value itself (a caller may hold on to it; what it says must not change later)
	ErrVal error `json:"-"`
}

func (r Result) String() string {
	b, _ := json.Marshal(r)
	return string(b)
}

// Same compares two results of the same signature.
func Same(a, b Result, byValue bool) bool {
	if a.IsErr != b.IsErr || a.Err != b.Err || a.Bool != b.Bool || a.Snap != b.Snap || a.Panic != b.Panic || a.Nil != b.Nil {
		return false
	}
	if bytes.Equal(a.Out, b.Out) {
		return true
	}
	if !byValue {
		return false
	}
	x, e1 := ref.Parse(a.Out)
	y, e2 := ref.Parse(b.Out)
	return e1 == nil && e2 == nil && sameValue(x, y)
}

// sameValue is structural equality that also copes with repeated member names
// (histories may hold such documents): objects are compared as multisets of
// (name, value) members.
func sameValue(a, b *ref.V) bool {
	if a.K != b.K {
		return false
	}
	switch a.K {
	case ref.KArr:
		if len(a.Arr) != len(b.Arr) {
			return false
		}
		for i := range a.Arr {
			if !sameValue(a.Arr[i], b.Arr[i]) {
				return false
			}
		}
		return true
	case ref.KObj:
		if len(a.Keys) != len(b.Keys) {
			return false
		}
		used := make([]bool, len(b.Keys))
		for i, k := range a.Keys {
			found := false
			for j, kb := range b.Keys {
				if !used[j] && kb == k && sameValue(a.Vals[i], b.Vals[j]) {
					used[j], found = true, true
					break
				}
			}
			if !found {
				return false
			}
		}
		return true
	}
	return ref.Equal(a, b)
}

// ---------- the two packages behind one face ----------

// API is one package under test.
type API struct {
	Name       string
	Decode     func([]byte) (any, error)
	Apply      func(p any, c Call, doc []byte, oc *OptsCache) ([]byte, error)
	Snapshot   func(p any) string // deep: keys, pointer identities, raw bytes
	Accessors  func(p any) string
	Merge      func(a, b []byte) ([]byte, error)
	MergeMerge func(a, b []byte) ([]byte, error)
	Create     func(a, b []byte) ([]byte, error)
	Equal      func(a, b []byte) bool
	// Defaults assigns the package-level defaults and returns the function that puts the old ones back.
	Defaults func(neg bool, limit int64) (restore func())
	// ReadDefaults reports the package-level defaults as they are now.
	ReadDefaults func() (neg bool, limit int64)
}

func snapOps[R ~[]byte](n int, op func(i int) map[string]*R, ptrs bool) string {
	var sb strings.Builder
	fmt.Fprintf(&sb, "len=%d", n)
	for i := 0; i < n; i++ {
		m := op(i)
		keys := make([]string, 0, len(m))
		for k := range m {
			keys = append(keys, k)
		}
		sort.Strings(keys)
		fmt.Fprintf(&sb, "\n#%d", i)
		for _, k := range keys {
			v := m[k]
			if v == nil {
				fmt.Fprintf(&sb, " %q:<nil>", k)
				continue
			}
			if ptrs {
				fmt.Fprintf(&sb, " %q@%p:%q", k, v, []byte(*v))
			} else {
				fmt.Fprintf(&sb, " %q:%q", k, []byte(*v))
			}
		}
	}
	return sb.String()
}

func fmtVal(v any, err error) string {
	if err != nil {
		return "error(" + err.Error() + ")"
	}
	b, e := json.Marshal(v) // maps are written with sorted keys: deterministic
	if e != nil {
		return fmt.Sprintf("%#v", v)
	}
	return string(b)
}

type jsonRaw = ijson.RawMessage

// OptsCache holds one *ApplyOptions value per option set, shared by every call
// of a history or workload that names that set (callers keep one options value
// around; the result must not depend on what it was used for before). A nil
// cache means fresh options per call. Fill it with Prepare before concurrent use.
type OptsCache struct {
	m map[lib.Options]*jp.ApplyOptions
}

func NewOptsCache() *OptsCache { return &OptsCache{m: map[lib.Options]*jp.ApplyOptions{}} }

// Prepare creates the shared value for c's option set.
func (oc *OptsCache) Prepare(c Call) {
	if oc == nil || c.Opts == nil {
		return
	}
	if _, ok := oc.m[*c.Opts]; !ok {
		oc.m[*c.Opts] = c.Opts.JP()
	}
}

func (oc *OptsCache) get(c Call) *jp.ApplyOptions {
	if c.Opts == nil {
		return lib.Defaults().JP()
	}
	if oc != nil {
		if o, ok := oc.m[*c.Opts]; ok {
			return o
		}
	}
	return c.Opts.JP()
}

// Intact reports whether every shared options value still holds what it was built with.
func (oc *OptsCache) Intact() error {
	if oc == nil {
		return nil
	}
	for spec, o := range oc.m {
		if want := spec.JP(); !lib.SameOptions(o, want) {
			return fmt.Errorf("an ApplyOptions value passed to Apply was modified: now %+v, was %+v", *o, *want)
		}
	}
	return nil
}

// V5 is the v5 module.
var V5 = API{
	Name:   "v5",
	Decode: func(b []byte) (any, error) { p, err := jp.DecodePatch(b); return p, err },
	Apply: func(p any, c Call, doc []byte, oc *OptsCache) ([]byte, error) {
		pt := p.(jp.Patch)
		switch c.Fn {
		case FApply:
			return pt.Apply(doc)
		case FApplyIndent:
			return pt.ApplyIndent(doc, c.Indent)
		case FApplyOpts:
			return pt.ApplyWithOptions(doc, oc.get(c))
		default:
			return pt.ApplyIndentWithOptions(doc, c.Indent, oc.get(c))
		}
	},
	Snapshot: func(p any) string {
		pt := p.(jp.Patch)
		if pt == nil {
			return "nil"
		}
		return snapOps(len(pt), func(i int) map[string]*jsonRaw { return pt[i] }, true)
	},
	Accessors: func(p any) string {
		var sb strings.Builder
		for i, op := range p.(jp.Patch) {
			pa, e1 := op.Path()
			fr, e2 := op.From()
			fmt.Fprintf(&sb, "#%d kind=%q path=%s from=%s value=%s\n", i, op.Kind(), fmtVal(pa, e1), fmtVal(fr, e2), fmtVal(op.ValueInterface()))
		}
		return sb.String()
	},
	Merge:      jp.MergePatch,
	MergeMerge: jp.MergeMergePatches,
	Create:     jp.CreateMergePatch,
	Equal:      jp.Equal,
	Defaults: func(neg bool, limit int64) func() {
		on, ol := jp.SupportNegativeIndices, jp.AccumulatedCopySizeLimit
		jp.SupportNegativeIndices, jp.AccumulatedCopySizeLimit = neg, limit
		return func() { jp.SupportNegativeIndices, jp.AccumulatedCopySizeLimit = on, ol }
	},
	ReadDefaults: func() (bool, int64) { return jp.SupportNegativeIndices, jp.AccumulatedCopySizeLimit },
}

// Legacy is the staged root package (no options API: the With-options calls
// fall back to Apply / ApplyIndent).
var Legacy = API{
	Name:   "legacy",
	Decode: func(b []byte) (any, error) { p, err := jl.DecodePatch(b); return p, err },
	Apply: func(p any, c Call, doc []byte, oc *OptsCache) ([]byte, error) {
		pt := p.(jl.Patch)
		switch c.Fn {
		case FApply, FApplyOpts:
			return pt.Apply(doc)
		default:
			return pt.ApplyIndent(doc, c.Indent)
		}
	},
	Snapshot: func(p any) string {
		pt := p.(jl.Patch)
		if pt == nil {
			return "nil"
		}
		return snapOps(len(pt), func(i int) map[string]*json.RawMessage { return pt[i] }, true)
	},
	Accessors: func(p any) string {
		var sb strings.Builder
		for i, op := range p.(jl.Patch) {
			pa, e1 := op.Path()
			fr, e2 := op.From()
			fmt.Fprintf(&sb, "#%d kind=%q path=%s from=%s value=%s\n", i, op.Kind(), fmtVal(pa, e1), fmtVal(fr, e2), fmtVal(op.ValueInterface()))
		}
		return sb.String()
	},
	Merge:      jl.MergePatch,
	MergeMerge: jl.MergeMergePatches,
	Create:     jl.CreateMergePatch,
	Equal:      jl.Equal,
	Defaults: func(neg bool, limit int64) func() {
		on, ol := jl.SupportNegativeIndices, jl.AccumulatedCopySizeLimit
		jl.SupportNegativeIndices, jl.AccumulatedCopySizeLimit = neg, limit
		return func() { jl.SupportNegativeIndices, jl.AccumulatedCopySizeLimit = on, ol }
	},
	ReadDefaults: func() (bool, int64) { return jl.SupportNegativeIndices, jl.AccumulatedCopySizeLimit },
}

func ByName(n string) API {
	if n == "legacy" {
		return Legacy
	}
	return V5
}

// ---------- buffers with a guarded tail ----------

const tail = 24
const sentinel = 0xA5

// Buf is an input buffer allocated with spare capacity; the spare region is
// filled with a sentinel so that an append into the caller's slice is seen.
type Buf struct {
	B    []byte // what the library is given (len = text, cap = len+tail)
	Want []byte // private copy of the text
}

func NewBuf(text []byte) *Buf {
	full := make([]byte, len(text)+tail)
	copy(full, text)
	for i := len(text); i < len(full); i++ {
		full[i] = sentinel
	}
	return &Buf{B: full[:len(text)], Want: append([]byte{}, text...)}
}

// Intact reports whether neither the text nor the spare capacity was written.
func (b *Buf) Intact() error {
	full := b.B[:cap(b.B)]
	if !bytes.Equal(full[:len(b.Want)], b.Want) {
		return fmt.Errorf("input bytes were modified: now %q, were %q", full[:len(b.Want)], b.Want)
	}
	for i := len(b.Want); i < len(full); i++ {
		if full[i] != sentinel {
			return fmt.Errorf("the spare capacity behind the input slice was written (offset +%d = %#x): %q", i-len(b.Want), full[i], b.Want)
		}
	}
	return nil
}

// ---------- executing one call ----------

// Exec runs call c. patch is the decoded Patch to use for the Apply family and
// Accessors (nil when the patch text did not decode: the result is then the
// decode error). Runs under ev.Safe; a panic is part of the result.
func Exec(api API, c Call, a, b []byte, patch any, patchErr error, oc *OptsCache) (r Result) {
	if p := ev.Safe(func() { r = exec(api, c, a, b, patch, patchErr, oc) }); p != nil {
		return Result{Panic: p.Error()}
	}
	return r
}

func outRes(out []byte, err error) Result {
	r := Result{Out: out, Nil: out == nil}
	if err != nil {
		r.IsErr, r.Err, r.ErrVal = true, err.Error(), err
	}
	return r
}

func exec(api API, c Call, a, b []byte, patch any, patchErr error, oc *OptsCache) Result {
	switch c.Fn {
	case FDecode:
		p, err := api.Decode(b)
		if err != nil {
			return Result{IsErr: true, Err: err.Error(), Snap: strings.ReplaceAll(api.Snapshot(p), "@", "")}
		}
		return Result{Snap: stripPtrs(api.Snapshot(p))}
	case FAccessors:
		if patchErr != nil {
			return Result{IsErr: true, Err: "decode: " + patchErr.Error()}
		}
		return Result{Snap: api.Accessors(patch)}
	case FApply, FApplyIndent, FApplyOpts, FApplyIndOpt:
		if patchErr != nil {
			return Result{IsErr: true, Err: "decode: " + patchErr.Error()}
		}
		return outRes(api.Apply(patch, c, a, oc))
	case FMerge:
		return outRes(api.Merge(a, b))
	case FMergeMerge:
		return outRes(api.MergeMerge(a, b))
	case FCreate:
		return outRes(api.Create(a, b))
	case FEqual:
		return Result{Bool: api.Equal(a, b)}
	case FGC:
		runtime.GC()
		runtime.GC()
		return Result{}
	}
	return Result{Panic: "unknown function " + c.Fn}
}

// stripPtrs removes the pointer identities from a snapshot (results must be
// comparable between two decodes of the same text).
func stripPtrs(s string) string {
	var sb strings.Builder
	for i := 0; i < len(s); i++ {
		if s[i] == '@' && i+2 < len(s) && s[i+1] == '0' && s[i+2] == 'x' {
			j := i + 3
			for j < len(s) && (s[j] >= '0' && s[j] <= '9' || s[j] >= 'a' && s[j] <= 'f') {
				j++
			}
			i = j - 1
			continue
		}
		sb.WriteByte(s[i])
	}
	return sb.String()
}

func OneIn25(t *rapid.T) bool { return gen.Uniform(t, 0, 24, "gc") == 0 }

// NeedsPatch: the call uses a decoded Patch taken from buffer B.
func (c Call) NeedsPatch() bool {
	switch c.Fn {
	case FApply, FApplyIndent, FApplyOpts, FApplyIndOpt, FAccessors:
		return true
	}
	return false
}

// ---------- generating a pool and calls over it ----------

// Pool is a generated set of buffers with their intended roles.
type Pool struct {
	Bufs    []Text
	Docs    []int // indices of document-like buffers
	Patches []int // RFC 6902 patch texts
	Merges  []int // merge-patch-like texts
	Bad     []int // malformed or hostile texts
}

// DrawPool builds a small pool: a document, near copies of it, patches drawn
// state-aware against the first document (so that they apply to several of
// the documents, and fail on others), merge patches that are mutations of the
// document, and malformed texts.
func DrawPool(t *rapid.T, legacy bool) Pool {
	var p Pool
	cfg := gen.Default
	add := func(role *[]int, b []byte) {
		*role = append(*role, len(p.Bufs))
		p.Bufs = append(p.Bufs, Text(b))
	}
	spell := func(v *ref.V, l string) []byte {
		if gen.OneIn(t, 3, l+"sp") {
			return []byte(gen.Spell(t, v, l))
		}
		return []byte(v.Text(gen.OneIn(t, 2, l+"esc")))
	}
	doc0 := cfg.Root().Draw(t, "doc0")
	add(&p.Docs, spell(doc0, "d0"))
	docs := []*ref.V{doc0}
	nd := gen.Uniform(t, 1, 3, "ndocs")
	for i := 0; i < nd; i++ {
		var d *ref.V
		switch gen.Uniform(t, 0, 3, "dk") {
		case 0:
			d = doc0.Clone() // same value, possibly another spelling
		case 1:
			d = cfg.Root().Draw(t, "dind")
		default:
			d = cfg.Mutate(t, doc0, 2)
		}
		docs = append(docs, d)
		add(&p.Docs, spell(d, fmt.Sprintf("d%d", i+1)))
	}
	if gen.OneIn(t, 3, "dupdoc") {
		// a document with a repeated member name (at the root or below): still one JSON text, and
		// the same call on it must still give the same bytes every time
		d := docs[gen.Uniform(t, 0, len(docs)-1, "dupbase")].Clone()
		done := false
		d.Walk(func(x *ref.V) {
			if !done && x.K == ref.KObj && len(x.Keys) >= 2 && gen.OneIn(t, 2, "dupat") {
				x.Keys = append(x.Keys, x.Keys[0])
				x.Vals = append(x.Vals, cfg.Scalar().Draw(t, "dupv"))
				done = true
			}
		})
		if !done && d.K == ref.KObj && len(d.Keys) >= 1 {
			d.Keys = append(d.Keys, d.Keys[0])
			d.Vals = append(d.Vals, cfg.Scalar().Draw(t, "dupv0"))
			d.Keys = append(d.Keys, "zz")
			d.Vals = append(d.Vals, ref.Num("1"))
		}
		add(&p.Docs, []byte(d.Text(false)))
	}
	if gen.OneIn(t, 4, "nulldoc") {
		// a null root: Apply on it fails late (at encoding time) - an error path of its own
		add(&p.Docs, []byte(rapid.SampledFrom([]string{"null", " null ", "null\n"}).Draw(t, "nulltext")))
	}
	if gen.OneIn(t, 12, "deepdoc") {
		// nested far deeper than any scratch state is kept for (a scanner's stack above 1024
		// entries is not pooled): what a call does with its oversized scratch state afterwards
		// shows in the calls that follow it or run beside it
		n := rapid.SampledFrom([]int{1100, 1100, 1300}).Draw(t, "deepn")
		add(&p.Docs, []byte(`{"d":`+strings.Repeat("[", n)+"1"+strings.Repeat("]", n)+`,"e":1}`))
	}
	np := gen.Uniform(t, 1, 3, "npatches")
	for i := 0; i < np; i++ {
		g := gen.NewOpGen(true)
		if !gen.OneIn(t, 4, "wild") {
			g.Calm()
		}
		g.Legacy = legacy
		base := docs[gen.Uniform(t, 0, len(docs)-1, "pbase")]
		if !base.IsContainer() {
			base = doc0
		}
		ops := g.Seq(t, base, ref.Opts{Neg: true}, 1, 6, 1)
		// patches too come in any spelling: whitespace and escapes inside values and pointers
		add(&p.Patches, spell(ref.OpsTree(ops), fmt.Sprintf("p%d", i)))
	}
	nm := gen.Uniform(t, 1, 2, "nmerges")
	for i := 0; i < nm; i++ {
		m := cfg.Mutate(t, docs[gen.Uniform(t, 0, len(docs)-1, "mbase")], 2)
		if m.K == ref.KObj && len(m.Keys) > 0 && gen.OneIn(t, 2, "mnull") {
			m.Set(rapid.SampledFrom(m.Keys).Draw(t, "mnk"), ref.Null())
		}
		add(&p.Merges, spell(m, fmt.Sprintf("m%d", i)))
	}
	if gen.OneIn(t, 3, "badop") {
		// a well-formed patch document that DecodePatch must reject (its rejection path has state of its own)
		add(&p.Bad, []byte(rapid.SampledFrom([]string{`[{"op":"nop","path":"/a"}]`, `[{"op":"add","path":"/a"}]`, `[{"op":"move","path":"/a"}]`, `[{"op":"test","path":1}]`, `[{"op":"Add","path":"/a","value":1}]`}).Draw(t, "badoptext")))
	}
	nb := gen.Uniform(t, 0, 2, "nbad")
	for i := 0; i < nb; i++ {
		b := gen.Bytes().Draw(t, "bad")
		if len(b) > 600 {
			b = b[:600] // deep nesting belongs to C04; histories want many cheap calls
		}
		add(&p.Bad, b)
	}
	return p
}

// OptionSets are the option combinations a case draws from (few, so that the
// same signature recurs within a history).
func DrawOptionSets(t *rapid.T) []lib.Options {
	n := gen.Uniform(t, 1, 3, "nopts")
	out := make([]lib.Options, n)
	for i := range out {
		bits := gen.Uniform(t, 0, 15, "obits")
		out[i] = lib.Options{Neg: bits&1 != 0, AllowMissing: bits&2 != 0, Ensure: bits&4 != 0, Esc: bits&8 != 0,
			Limit: rapid.SampledFrom([]int64{0, 0, 0, 7, 40, 400}).Draw(t, "olimit")}
	}
	return out
}

var fnWeights = []string{
	FApply, FApply, FApply, FApply, FApplyIndent, FApplyOpts, FApplyOpts, FApplyIndOpt,
	FDecode, FDecode, FAccessors, FMerge, FMerge, FMergeMerge, FCreate, FCreate, FEqual, FEqual,
}

// DrawCall draws one call over the pool: arguments mostly in their intended
// roles, sometimes any buffer in any role (calls that fail).
func DrawCall(t *rapid.T, p Pool, opts []lib.Options) Call {
	return drawCall(t, p, opts, false)
}

// DrawCallGC is DrawCall for sequential histories: one call in 25 is FGC.
func DrawCallGC(t *rapid.T, p Pool, opts []lib.Options) Call {
	return drawCall(t, p, opts, true)
}

func drawCall(t *rapid.T, p Pool, opts []lib.Options, gc bool) Call {
	if gc && OneIn25(t) {
		return Call{Fn: FGC}
	}
	pick := func(role []int, l string) int {
		if len(role) == 0 || gen.OneIn(t, 8, l+"any") {
			return gen.Uniform(t, 0, len(p.Bufs)-1, l+"i")
		}
		return role[gen.Uniform(t, 0, len(role)-1, l)]
	}
	c := Call{Fn: rapid.SampledFrom(fnWeights).Draw(t, "fn")}
	switch c.Fn {
	case FDecode, FAccessors:
		c.B = pick(p.Patches, "pb")
	case FApply, FApplyIndent, FApplyOpts, FApplyIndOpt:
		c.A, c.B = pick(p.Docs, "da"), pick(p.Patches, "pb")
		c.Fresh = gen.OneIn(t, 5, "fresh")
		if c.Fn == FApplyIndent || c.Fn == FApplyIndOpt {
			c.Indent = rapid.SampledFrom([]string{" ", "\t", "  "}).Draw(t, "ind")
		}
		if c.Fn == FApplyOpts || c.Fn == FApplyIndOpt {
			o := opts[gen.Uniform(t, 0, len(opts)-1, "oi")]
			c.Opts = &o
		}
	case FMerge:
		c.A, c.B = pick(p.Docs, "da"), pick(p.Merges, "mb")
	case FMergeMerge:
		c.A, c.B = pick(p.Merges, "ma"), pick(p.Merges, "mb")
	case FCreate, FEqual:
		c.A, c.B = pick(p.Docs, "da"), pick(p.Docs, "db")
		if gen.OneIn(t, 4, "mix") {
			c.B = pick(p.Merges, "mb")
		}
	}
	if len(p.Bufs[c.A]) > 2000 || len(p.Bufs[c.B]) > 2000 {
		// Equal is quadratic in the nesting depth (0.4 s on a 2 100-level document, 4 s under the race
		// detector) and the indenting entry points write depth^2 bytes (4 MB, 0.7 s under the race
		// detector): histories and workloads want many cheap calls, and the other functions bring
		// the deep document through the same scratch states
		switch c.Fn {
		case FEqual:
			c.Fn = FMerge
		case FApplyIndent:
			c.Fn, c.Indent = FApply, ""
		case FApplyIndOpt:
			c.Fn, c.Indent = FApplyOpts, ""
		}
	}
	return c
}

// BigIndexPatches reports, per buffer, whether it is a patch document holding a
// numeric reference token above 10^4. Applying such a patch under
// EnsurePathExistsOnAdd pads arrays element by element (quadratic) and is
// outside the stated domain (C04); histories and workloads skip those calls.
func BigIndexPatches(bufs []Text) []bool {
	out := make([]bool, len(bufs))
	for i, b := range bufs {
		pt, err := ref.Parse(b)
		if err != nil || pt.K != ref.KArr {
			continue
		}
		for _, e := range pt.Arr {
			if e.K != ref.KObj {
				continue
			}
			for j, k := range e.Keys {
				if (k == "path" || k == "from") && e.Vals[j].K == ref.KStr && lib.BigIndex(e.Vals[j].Str) {
					out[i] = true
				}
			}
		}
	}
	return out
}

// Skips: the call is outside the stated domain (see BigIndexPatches).
func (c Call) Skips(big []bool) bool {
	return c.NeedsPatch() && c.Fn != FAccessors && c.Opts != nil && c.Opts.Ensure && big[c.B]
}
