// Package ref holds the oracles: an independent, order- and literal-preserving
// JSON reader/writer (also the RFC 8259 recogniser), an RFC 6902 evaluator in
// the library's documented dialect and the RFC 7396 merge algorithm. Nothing in
// here imports the library under test or any encoding/json.
package ref

import (
	"fmt"
	"math/big"
	"sort"
	"strconv"
	"strings"
	"unicode/utf16"
	"unicode/utf8"
)

// Kind of a JSON value in the reference tree.
type Kind int

const (
	KNull Kind = iota
	KBool
	KNum
	KStr
	KArr
	KObj
)

func (k Kind) String() string {
	return [...]string{"null", "bool", "num", "str", "arr", "obj"}[k]
}

// V is one JSON value. Objects keep members in document order (duplicates
// kept); numbers keep their literal; strings are decoded.
type V struct {
	K    Kind
	B    bool
	Num  string
	Str  string
	Arr  []*V
	Keys []string
	Vals []*V
	// S, E: byte span of the value in the text it was parsed from (parser only).
	S, E int
}

func Null() *V        { return &V{K: KNull} }
func Bool(b bool) *V  { return &V{K: KBool, B: b} }
func Num(l string) *V { return &V{K: KNum, Num: l} }
func Str(s string) *V { return &V{K: KStr, Str: s} }
func Arr(e ...*V) *V {
	if e == nil {
		e = []*V{}
	}
	return &V{K: KArr, Arr: e}
}
func Obj() *V { return &V{K: KObj} }

// ObjOf builds an object from alternating key, value arguments.
func ObjOf(kv ...any) *V {
	o := Obj()
	for i := 0; i+1 < len(kv); i += 2 {
		o.Set(kv[i].(string), kv[i+1].(*V))
	}
	return o
}

func (v *V) IsContainer() bool { return v.K == KObj || v.K == KArr }

func (v *V) Index(k string) int {
	for i, kk := range v.Keys {
		if kk == k {
			return i
		}
	}
	return -1
}

func (v *V) Get(k string) (*V, bool) {
	if i := v.Index(k); i >= 0 {
		return v.Vals[i], true
	}
	return nil, false
}

// Set stores x under k: an existing member keeps its position, a new one is appended.
func (v *V) Set(k string, x *V) {
	if i := v.Index(k); i >= 0 {
		v.Vals[i] = x
		return
	}
	v.Keys = append(v.Keys, k)
	v.Vals = append(v.Vals, x)
}

func (v *V) Del(k string) bool {
	i := v.Index(k)
	if i < 0 {
		return false
	}
	v.Keys = append(append([]string{}, v.Keys[:i]...), v.Keys[i+1:]...)
	v.Vals = append(append([]*V{}, v.Vals[:i]...), v.Vals[i+1:]...)
	return true
}

func (v *V) Clone() *V {
	if v == nil {
		return nil
	}
	c := *v
	if v.K == KArr {
		c.Arr = make([]*V, len(v.Arr))
		for i, e := range v.Arr {
			c.Arr[i] = e.Clone()
		}
	}
	if v.K == KObj {
		c.Keys = append([]string{}, v.Keys...)
		c.Vals = make([]*V, len(v.Vals))
		for i, e := range v.Vals {
			c.Vals[i] = e.Clone()
		}
	}
	return &c
}

// Equal is structural equality: objects unordered, numbers by literal.
func Equal(a, b *V) bool {
	if a.K != b.K {
		return false
	}
	switch a.K {
	case KNull:
		return true
	case KBool:
		return a.B == b.B
	case KNum:
		return a.Num == b.Num
	case KStr:
		return a.Str == b.Str
	case KArr:
		if len(a.Arr) != len(b.Arr) {
			return false
		}
		for i := range a.Arr {
			if !Equal(a.Arr[i], b.Arr[i]) {
				return false
			}
		}
		return true
	case KObj:
		if len(a.Keys) != len(b.Keys) {
			return false
		}
		for i, k := range a.Keys {
			bv, ok := b.Get(k)
			if !ok || !Equal(a.Vals[i], bv) {
				return false
			}
		}
		return true
	}
	return false
}

// EqualOrdered is Equal with member order significant.
func EqualOrdered(a, b *V) bool {
	if a.K != b.K {
		return false
	}
	switch a.K {
	case KArr:
		if len(a.Arr) != len(b.Arr) {
			return false
		}
		for i := range a.Arr {
			if !EqualOrdered(a.Arr[i], b.Arr[i]) {
				return false
			}
		}
		return true
	case KObj:
		if len(a.Keys) != len(b.Keys) {
			return false
		}
		for i, k := range a.Keys {
			if b.Keys[i] != k || !EqualOrdered(a.Vals[i], b.Vals[i]) {
				return false
			}
		}
		return true
	}
	return Equal(a, b)
}

// HasDup reports a duplicated member name anywhere in v.
func (v *V) HasDup() bool {
	switch v.K {
	case KArr:
		for _, e := range v.Arr {
			if e.HasDup() {
				return true
			}
		}
	case KObj:
		ks := append([]string{}, v.Keys...)
		sort.Strings(ks)
		for i := 1; i < len(ks); i++ {
			if ks[i] == ks[i-1] {
				return true
			}
		}
		for _, e := range v.Vals {
			if e.HasDup() {
				return true
			}
		}
	}
	return false
}

// Walk calls f on v and every value below it (pre-order).
func (v *V) Walk(f func(*V)) {
	f(v)
	for _, e := range v.Arr {
		e.Walk(f)
	}
	for _, e := range v.Vals {
		e.Walk(f)
	}
}

// Any reports whether pred holds for v or any value below it.
func (v *V) Any(pred func(*V) bool) bool {
	found := false
	v.Walk(func(x *V) {
		if pred(x) {
			found = true
		}
	})
	return found
}

// AnyString reports whether pred holds for any string value or member name.
func (v *V) AnyString(pred func(string) bool) bool {
	found := false
	v.Walk(func(x *V) {
		if x.K == KStr && pred(x.Str) {
			found = true
		}
		for _, k := range x.Keys {
			if pred(k) {
				found = true
			}
		}
	})
	return found
}

// HasNullMember reports an object member whose value is null, anywhere.
func (v *V) HasNullMember() bool {
	return v.Any(func(x *V) bool {
		for _, e := range x.Vals {
			if e.K == KNull {
				return true
			}
		}
		return false
	})
}

func (v *V) Depth() int {
	d := 0
	for _, e := range v.Arr {
		if x := e.Depth(); x > d {
			d = x
		}
	}
	for _, e := range v.Vals {
		if x := e.Depth(); x > d {
			d = x
		}
	}
	if v.IsContainer() {
		return d + 1
	}
	return 0
}

// ---------- numbers ----------

// NumValueEqual reports whether two number literals denote the same value
// (exact rational comparison; exponents are bounded so that a hostile literal
// cannot blow up: beyond the bound the answer is "possibly equal" = true, which
// only ever excludes a case from comparison).
func NumValueEqual(a, b string) bool {
	ra, ok1 := numRat(a)
	rb, ok2 := numRat(b)
	if !ok1 || !ok2 {
		return true
	}
	return ra.Cmp(rb) == 0
}

func numRat(s string) (*big.Rat, bool) {
	mant := s
	exp := 0
	if i := strings.IndexAny(s, "eE"); i >= 0 {
		mant = s[:i]
		e, err := strconv.Atoi(s[i+1:])
		if err != nil || e > 5000 || e < -5000 {
			// zero mantissa is zero whatever the exponent
			r, ok := new(big.Rat).SetString(mant)
			if ok && r.Sign() == 0 {
				return r, true
			}
			return nil, false
		}
		exp = e
	}
	if len(mant) > 5000 {
		return nil, false
	}
	r, ok := new(big.Rat).SetString(mant)
	if !ok {
		return nil, false
	}
	if exp != 0 {
		p := new(big.Int).Exp(big.NewInt(10), big.NewInt(int64(abs(exp))), nil)
		if exp > 0 {
			r.Mul(r, new(big.Rat).SetInt(p))
		} else {
			r.Quo(r, new(big.Rat).SetInt(p))
		}
	}
	return r, true
}

func abs(x int) int {
	if x < 0 {
		return -x
	}
	return x
}

// NumSpellingIssue reports two numbers at corresponding positions of a and b
// whose literals differ but whose values are equal. Every property places such
// pairs outside its domain, so this is only ever used to exclude a case.
func NumSpellingIssue(a, b *V) bool {
	if a.K != b.K {
		return false
	}
	switch a.K {
	case KNum:
		return a.Num != b.Num && NumValueEqual(a.Num, b.Num)
	case KArr:
		for i := 0; i < len(a.Arr) && i < len(b.Arr); i++ {
			if NumSpellingIssue(a.Arr[i], b.Arr[i]) {
				return true
			}
		}
	case KObj:
		for i, k := range a.Keys {
			if bv, ok := b.Get(k); ok && NumSpellingIssue(a.Vals[i], bv) {
				return true
			}
		}
	}
	return false
}

// ---------- strict RFC 8259 parser (byte level) ----------

// MaxDepth is the nesting limit of the codec under test (scanner.go maxNestingDepth).
const MaxDepth = 10000

type parser struct {
	s []byte
	i int
	// Lone is set when a lone surrogate escape was replaced by U+FFFD.
	lone bool
	// badUTF8 is set when an invalid UTF-8 sequence was seen inside a string.
	badUTF8 bool
	// escapes counts escape sequences seen in strings.
	escapes int
	// noDepthLimit: plain RFC 8259 (no nesting limit) - for outputs, which may
	// legitimately be nested deeper than any input the codec accepts.
	noDepthLimit bool
}

// Info describes lexical facts of a parsed text that the tree does not keep.
type Info struct {
	LoneSurrogate bool
	BadUTF8       bool
	Escapes       int
}

// Parse reads exactly one RFC 8259 JSON text (surrounding ws allowed).
func Parse(s []byte) (*V, error) {
	v, _, err := ParseInfo(s)
	return v, err
}

func ParseInfo(s []byte) (*V, Info, error) {
	p := &parser{s: s}
	p.ws()
	v, err := p.value(0)
	if err != nil {
		return nil, Info{}, err
	}
	p.ws()
	if p.i != len(p.s) {
		return nil, Info{}, fmt.Errorf("trailing data at %d", p.i)
	}
	return v, Info{p.lone, p.badUTF8, p.escapes}, nil
}

// ParseAnyDepth is Parse without the codec's nesting limit.
func ParseAnyDepth(s []byte) (*V, error) {
	p := &parser{s: s, noDepthLimit: true}
	p.ws()
	v, err := p.value(0)
	if err != nil {
		return nil, err
	}
	p.ws()
	if p.i != len(p.s) {
		return nil, fmt.Errorf("trailing data at %d", p.i)
	}
	return v, nil
}

// Valid is the RFC 8259 recogniser.
func Valid(s []byte) bool {
	_, err := Parse(s)
	return err == nil
}

func MustParse(s string) *V {
	v, err := Parse([]byte(s))
	if err != nil {
		panic(fmt.Sprintf("ref.MustParse(%q): %v", s, err))
	}
	return v
}

func (p *parser) ws() {
	for p.i < len(p.s) && (p.s[p.i] == ' ' || p.s[p.i] == '\t' || p.s[p.i] == '\n' || p.s[p.i] == '\r') {
		p.i++
	}
}

func (p *parser) value(depth int) (*V, error) {
	st := p.i
	v, err := p.value0(depth)
	if v != nil {
		v.S, v.E = st, p.i
	}
	return v, err
}

func (p *parser) value0(depth int) (*V, error) {
	if p.i >= len(p.s) {
		return nil, fmt.Errorf("eof")
	}
	switch c := p.s[p.i]; {
	case c == '{':
		if depth+1 > MaxDepth && !p.noDepthLimit {
			return nil, fmt.Errorf("depth")
		}
		p.i++
		o := Obj()
		p.ws()
		if p.i < len(p.s) && p.s[p.i] == '}' {
			p.i++
			return o, nil
		}
		for {
			p.ws()
			if p.i >= len(p.s) || p.s[p.i] != '"' {
				return nil, fmt.Errorf("key expected at %d", p.i)
			}
			k, err := p.str()
			if err != nil {
				return nil, err
			}
			p.ws()
			if p.i >= len(p.s) || p.s[p.i] != ':' {
				return nil, fmt.Errorf(": expected at %d", p.i)
			}
			p.i++
			p.ws()
			v, err := p.value(depth + 1)
			if err != nil {
				return nil, err
			}
			o.Keys = append(o.Keys, k)
			o.Vals = append(o.Vals, v)
			p.ws()
			if p.i >= len(p.s) {
				return nil, fmt.Errorf("eof")
			}
			if p.s[p.i] == ',' {
				p.i++
				continue
			}
			if p.s[p.i] == '}' {
				p.i++
				return o, nil
			}
			return nil, fmt.Errorf(", or } expected at %d", p.i)
		}
	case c == '[':
		if depth+1 > MaxDepth && !p.noDepthLimit {
			return nil, fmt.Errorf("depth")
		}
		p.i++
		a := Arr()
		p.ws()
		if p.i < len(p.s) && p.s[p.i] == ']' {
			p.i++
			return a, nil
		}
		for {
			p.ws()
			v, err := p.value(depth + 1)
			if err != nil {
				return nil, err
			}
			a.Arr = append(a.Arr, v)
			p.ws()
			if p.i >= len(p.s) {
				return nil, fmt.Errorf("eof")
			}
			if p.s[p.i] == ',' {
				p.i++
				continue
			}
			if p.s[p.i] == ']' {
				p.i++
				return a, nil
			}
			return nil, fmt.Errorf(", or ] expected at %d", p.i)
		}
	case c == '"':
		s, err := p.str()
		if err != nil {
			return nil, err
		}
		return Str(s), nil
	case c == 't':
		return p.lit("true", Bool(true))
	case c == 'f':
		return p.lit("false", Bool(false))
	case c == 'n':
		return p.lit("null", Null())
	case c == '-' || (c >= '0' && c <= '9'):
		st := p.i
		if c == '-' {
			p.i++
		}
		if p.i >= len(p.s) {
			return nil, fmt.Errorf("eof in number")
		}
		if p.s[p.i] == '0' {
			p.i++
		} else if p.s[p.i] >= '1' && p.s[p.i] <= '9' {
			for p.i < len(p.s) && p.s[p.i] >= '0' && p.s[p.i] <= '9' {
				p.i++
			}
		} else {
			return nil, fmt.Errorf("bad number")
		}
		if p.i < len(p.s) && p.s[p.i] == '.' {
			p.i++
			n := 0
			for p.i < len(p.s) && p.s[p.i] >= '0' && p.s[p.i] <= '9' {
				p.i++
				n++
			}
			if n == 0 {
				return nil, fmt.Errorf("bad frac")
			}
		}
		if p.i < len(p.s) && (p.s[p.i] == 'e' || p.s[p.i] == 'E') {
			p.i++
			if p.i < len(p.s) && (p.s[p.i] == '+' || p.s[p.i] == '-') {
				p.i++
			}
			n := 0
			for p.i < len(p.s) && p.s[p.i] >= '0' && p.s[p.i] <= '9' {
				p.i++
				n++
			}
			if n == 0 {
				return nil, fmt.Errorf("bad exp")
			}
		}
		return Num(string(p.s[st:p.i])), nil
	}
	return nil, fmt.Errorf("unexpected byte %q at %d", p.s[p.i], p.i)
}

func (p *parser) lit(w string, v *V) (*V, error) {
	if p.i+len(w) <= len(p.s) && string(p.s[p.i:p.i+len(w)]) == w {
		p.i += len(w)
		return v, nil
	}
	return nil, fmt.Errorf("bad literal at %d", p.i)
}

func hex4(b []byte) (rune, bool) {
	if len(b) < 4 {
		return 0, false
	}
	var r rune
	for _, c := range b[:4] {
		switch {
		case c >= '0' && c <= '9':
			r = r*16 + rune(c-'0')
		case c >= 'a' && c <= 'f':
			r = r*16 + rune(c-'a'+10)
		case c >= 'A' && c <= 'F':
			r = r*16 + rune(c-'A'+10)
		default:
			return 0, false
		}
	}
	return r, true
}

func (p *parser) str() (string, error) {
	p.i++ // opening quote
	var sb strings.Builder
	for {
		if p.i >= len(p.s) {
			return "", fmt.Errorf("eof in string")
		}
		c := p.s[p.i]
		switch {
		case c == '"':
			p.i++
			return sb.String(), nil
		case c < 0x20:
			return "", fmt.Errorf("control char in string at %d", p.i)
		case c == '\\':
			p.escapes++
			p.i++
			if p.i >= len(p.s) {
				return "", fmt.Errorf("eof in escape")
			}
			e := p.s[p.i]
			p.i++
			switch e {
			case '"', '\\', '/':
				sb.WriteByte(e)
			case 'b':
				sb.WriteByte('\b')
			case 'f':
				sb.WriteByte('\f')
			case 'n':
				sb.WriteByte('\n')
			case 'r':
				sb.WriteByte('\r')
			case 't':
				sb.WriteByte('\t')
			case 'u':
				r, ok := hex4(p.s[p.i:])
				if !ok {
					return "", fmt.Errorf("bad \\u at %d", p.i)
				}
				p.i += 4
				if utf16.IsSurrogate(r) {
					if p.i+6 <= len(p.s) && p.s[p.i] == '\\' && p.s[p.i+1] == 'u' {
						if r2, ok := hex4(p.s[p.i+2:]); ok {
							if d := utf16.DecodeRune(r, r2); d != utf8.RuneError {
								p.i += 6
								sb.WriteRune(d)
								continue
							}
						}
					}
					p.lone = true
					r = utf8.RuneError
				}
				sb.WriteRune(r)
			default:
				return "", fmt.Errorf("bad escape at %d", p.i)
			}
		case c < utf8.RuneSelf:
			sb.WriteByte(c)
			p.i++
		default:
			r, n := utf8.DecodeRune(p.s[p.i:])
			if r == utf8.RuneError && n == 1 {
				p.badUTF8 = true
			}
			sb.WriteRune(r) // invalid -> U+FFFD, as Go does
			p.i += n
		}
	}
}

// ---------- writer (the encoder's own spelling) ----------

// Quote spells s as the library's encoder does for the given EscapeHTML
// setting (U+0008 and U+000C, whose spelling differs between Go releases, are
// written as \u0008 and \u000c like the fork does).
func Quote(s string, esc bool) string {
	var sb strings.Builder
	sb.WriteByte('"')
	for _, r := range s {
		switch {
		case r == '"':
			sb.WriteString(`\"`)
		case r == '\\':
			sb.WriteString(`\\`)
		case r == '\n':
			sb.WriteString(`\n`)
		case r == '\r':
			sb.WriteString(`\r`)
		case r == '\t':
			sb.WriteString(`\t`)
		case r < 0x20:
			fmt.Fprintf(&sb, `\u%04x`, r)
		case esc && (r == '<' || r == '>' || r == '&'):
			fmt.Fprintf(&sb, `\u%04x`, r)
		case r == 0x2028 || r == 0x2029:
			fmt.Fprintf(&sb, `\u%04x`, r)
		default:
			sb.WriteRune(r)
		}
	}
	sb.WriteByte('"')
	return sb.String()
}

func (v *V) String() string { return v.Text(false) }

// Text is the compact canonical serialisation (encoder's spelling).
func (v *V) Text(esc bool) string {
	var sb strings.Builder
	v.write(&sb, esc)
	return sb.String()
}

func (v *V) write(sb *strings.Builder, esc bool) {
	switch v.K {
	case KNull:
		sb.WriteString("null")
	case KBool:
		sb.WriteString(strconv.FormatBool(v.B))
	case KNum:
		sb.WriteString(v.Num)
	case KStr:
		sb.WriteString(Quote(v.Str, esc))
	case KArr:
		sb.WriteByte('[')
		for i, e := range v.Arr {
			if i > 0 {
				sb.WriteByte(',')
			}
			e.write(sb, esc)
		}
		sb.WriteByte(']')
	case KObj:
		sb.WriteByte('{')
		for i, k := range v.Keys {
			if i > 0 {
				sb.WriteByte(',')
			}
			sb.WriteString(Quote(k, esc))
			sb.WriteByte(':')
			v.Vals[i].write(sb, esc)
		}
		sb.WriteByte('}')
	}
}

// Indent re-indents compact (or any) well-formed JSON text the way
// encoding/json.Indent does with an empty prefix: independent implementation
// working on tokens of the text.
func Indent(src []byte, indent string) []byte {
	var out []byte
	depth := 0
	inStr := false
	escp := false
	needIndent := false
	nl := func() {
		out = append(out, '\n')
		for i := 0; i < depth; i++ {
			out = append(out, indent...)
		}
	}
	for _, c := range src {
		if inStr {
			out = append(out, c)
			if escp {
				escp = false
			} else if c == '\\' {
				escp = true
			} else if c == '"' {
				inStr = false
			}
			continue
		}
		if c == ' ' || c == '\t' || c == '\n' || c == '\r' {
			continue
		}
		if needIndent && c != ']' && c != '}' {
			needIndent = false
			depth++
			nl()
		}
		switch c {
		case '"':
			inStr = true
			out = append(out, c)
		case '{', '[':
			out = append(out, c)
			needIndent = true
		case ',':
			out = append(out, c)
			nl()
		case ':':
			out = append(out, c, ' ')
		case '}', ']':
			if needIndent {
				needIndent = false
			} else {
				depth--
				nl()
			}
			out = append(out, c)
		default:
			out = append(out, c)
		}
	}
	return out
}

// StripWS removes insignificant whitespace (outside strings) from a JSON text.
func StripWS(src []byte) []byte {
	out := make([]byte, 0, len(src))
	inStr, escp := false, false
	for _, c := range src {
		if inStr {
			out = append(out, c)
			if escp {
				escp = false
			} else if c == '\\' {
				escp = true
			} else if c == '"' {
				inStr = false
			}
			continue
		}
		if c == ' ' || c == '\t' || c == '\n' || c == '\r' {
			continue
		}
		if c == '"' {
			inStr = true
		}
		out = append(out, c)
	}
	return out
}

// PathOf finds target (by pointer identity) below root and returns the steps
// leading to it: a string for an object member name, an int for an array
// index. ok is false when target is not part of root.
func PathOf(root, target *V) (steps []any, ok bool) {
	if root == target {
		return nil, true
	}
	switch root.K {
	case KObj:
		for i, v := range root.Vals {
			if st, ok := PathOf(v, target); ok {
				return append([]any{root.Keys[i]}, st...), true
			}
		}
	case KArr:
		for i, v := range root.Arr {
			if st, ok := PathOf(v, target); ok {
				return append([]any{i}, st...), true
			}
		}
	}
	return nil, false
}

// Follow walks steps (as returned by PathOf) from root; nil when they do not lead anywhere.
func Follow(root *V, steps []any) *V {
	cur := root
	for _, st := range steps {
		switch x := st.(type) {
		case string:
			if cur.K != KObj {
				return nil
			}
			v, ok := cur.Get(x)
			if !ok {
				return nil
			}
			cur = v
		case int:
			if cur.K != KArr || x < 0 || x >= len(cur.Arr) {
				return nil
			}
			cur = cur.Arr[x]
		}
	}
	return cur
}
