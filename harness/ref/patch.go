package ref

import (
	"fmt"
	"strings"
)

// Cause classifies the outcome of one operation in the reference evaluator.
type Cause int

const (
	COK Cause = iota
	CParentUnreachable
	CAbsentMember
	CIndexRange  // canonical index, out of range for the operation
	CIndexSyntax // "-" where an element is needed, or a non-numeric token on an array
	CNegOff      // negative index while SupportNegativeIndices is off
	CTestUnequal
	CRootScalar // add/replace of "" with a string, number or boolean
	CMoveRoot   // move from ""
	CBadPointer // non-empty pointer without any '/'
	CCopyLimit  // copy pushed the accumulated size over the limit
	COutOfDomain
)

func (c Cause) String() string {
	return [...]string{"ok", "parent-unreachable", "absent-member", "index-range", "index-syntax",
		"negative-index-off", "test-unequal", "root-scalar", "move-root", "bad-pointer", "copy-limit", "out-of-domain"}[c]
}

// Op is one RFC 6902 operation. Value is nil when the member is absent.
type Op struct {
	Op, Path, From string
	Value          *V
}

// Opts are the ApplyOptions the model understands.
type Opts struct {
	Neg          bool  // SupportNegativeIndices
	AllowMissing bool  // AllowMissingPathOnRemove
	Ensure       bool  // EnsurePathExistsOnAdd
	Esc          bool  // EscapeHTML (only matters for copy sizes)
	Limit        int64 // AccumulatedCopySizeLimit
	// CopySizes: measured size bounds of the successive copies (see State.Sizes).
	CopySizes [][2]int64
}

// Result of evaluating one operation.
type Result struct {
	Cause Cause
	// Alt, if not COK, is a second acceptable classification (two independent
	// reasons to fail, e.g. over the limit and a bad destination index).
	Alt Cause
	// Why is a human-readable reason for COutOfDomain.
	Why string
	// Skipped: a remove forgiven by AllowMissingPathOnRemove.
	Skipped bool
	// Fuzzy: the failure involved a negative index while off or an index
	// syntax problem somewhere on the way (matters for C13's domain).
	Fuzzy bool
	// Copied is the value a copy duplicated (set when source and destination
	// parent resolved, i.e. when the size is accounted).
	Copied *V
	// Created is the number of containers EnsurePathExistsOnAdd created,
	// Padded the number of nulls it padded.
	Created, Padded int
}

func ood(why string) Result { return Result{Cause: COutOfDomain, Why: why} }

// DecodeTok applies RFC 6901 unescaping (~1 first, then ~0).
func DecodeTok(t string) string {
	t = strings.ReplaceAll(t, "~1", "/")
	return strings.ReplaceAll(t, "~0", "~")
}

// EncodeTok is the inverse.
func EncodeTok(k string) string {
	k = strings.ReplaceAll(k, "~", "~0")
	return strings.ReplaceAll(k, "/", "~1")
}

// ParseIdx reads a canonical array index: "0", "12", or negative "-3" (no
// leading zeros, no "+", no "-0").
func ParseIdx(t string) (val int, neg bool, ok bool) {
	if t == "" {
		return 0, false, false
	}
	d := t
	if t[0] == '-' {
		neg = true
		d = t[1:]
		if d == "" {
			return 0, false, false
		}
	}
	if len(d) > 1 && d[0] == '0' {
		return 0, false, false
	}
	if neg && d == "0" {
		return 0, false, false
	}
	n := 0
	for _, c := range d {
		if c < '0' || c > '9' {
			return 0, false, false
		}
		n = n*10 + int(c-'0')
		if n > 1<<40 {
			n = 1 << 40
		}
	}
	if neg {
		n = -n
	}
	return n, neg, true
}

// IsAtoiish: strconv.Atoi would accept the token (so the library treats it as
// a number) — used to recognise non-canonical spellings.
func IsAtoiish(t string) bool {
	if t == "" {
		return false
	}
	d := t
	if t[0] == '+' || t[0] == '-' {
		d = t[1:]
	}
	if d == "" {
		return false
	}
	for _, c := range d {
		if c < '0' || c > '9' {
			return false
		}
	}
	return true
}

// SplitPointer returns the undecoded tokens of a non-empty pointer, or a
// classification when the pointer is not usable.
func SplitPointer(p string) ([]string, Result) {
	if !strings.HasPrefix(p, "/") {
		if strings.Contains(p, "/") {
			return nil, ood("pointer without leading slash but containing one")
		}
		return nil, Result{Cause: CBadPointer}
	}
	toks := strings.Split(p[1:], "/")
	for _, t := range toks {
		if t == "" {
			return nil, ood("empty reference token")
		}
	}
	return toks, Result{}
}

// arrIndex resolves token t on array a: index of an existing element
// (forAdd=false) or insertion position (forAdd=true).
func arrIndex(a *V, t string, o Opts, forAdd bool) (int, Result) {
	n := len(a.Arr)
	if t == "-" {
		if forAdd {
			return n, Result{}
		}
		return 0, Result{Cause: CIndexSyntax, Fuzzy: true}
	}
	i, neg, ok := ParseIdx(t)
	if !ok {
		if IsAtoiish(t) {
			return 0, ood("non-canonical index spelling")
		}
		return 0, Result{Cause: CIndexSyntax, Fuzzy: true}
	}
	if neg {
		if !o.Neg {
			return 0, Result{Cause: CNegOff, Fuzzy: true}
		}
		if forAdd {
			i += n + 1
		} else {
			i += n
		}
		if i < 0 {
			return 0, Result{Cause: CIndexRange}
		}
		return i, Result{}
	}
	if forAdd && i > n || !forAdd && i >= n {
		return 0, Result{Cause: CIndexRange}
	}
	return i, Result{}
}

type loc struct {
	parent *V
	key    string // undecoded last token
}

// walk resolves the parent container of pointer p (p != "").
func walk(root *V, p string, o Opts) (*loc, Result) {
	toks, r := SplitPointer(p)
	if r.Cause != COK {
		return nil, r
	}
	cur := root
	for _, t := range toks[:len(toks)-1] {
		switch cur.K {
		case KObj:
			nx, ok := cur.Get(DecodeTok(t))
			if !ok {
				return nil, Result{Cause: CParentUnreachable}
			}
			cur = nx
		case KArr:
			i, r := arrIndex(cur, t, o, false)
			if r.Cause == COutOfDomain {
				return nil, r
			}
			if r.Cause != COK {
				return nil, Result{Cause: CParentUnreachable, Fuzzy: r.Fuzzy}
			}
			cur = cur.Arr[i]
		default:
			return nil, Result{Cause: CParentUnreachable}
		}
	}
	if !cur.IsContainer() {
		return nil, Result{Cause: CParentUnreachable}
	}
	return &loc{cur, toks[len(toks)-1]}, Result{}
}

// Lookup returns the value at pointer p.
func Lookup(root *V, p string, o Opts) (*V, Result) {
	if p == "" {
		return root, Result{}
	}
	l, r := walk(root, p, o)
	if r.Cause != COK {
		return nil, r
	}
	if l.parent.K == KObj {
		v, ok := l.parent.Get(DecodeTok(l.key))
		if !ok {
			return nil, Result{Cause: CAbsentMember}
		}
		return v, Result{}
	}
	i, r := arrIndex(l.parent, l.key, o, false)
	if r.Cause != COK {
		return nil, r
	}
	return l.parent.Arr[i], Result{}
}

func rootReplace(root **V, v *V) Result {
	switch v.K {
	case KNull:
		return ood("root replaced by null")
	case KObj, KArr:
		*root = v
		return Result{}
	}
	return Result{Cause: CRootScalar}
}

func addAt(l *loc, v *V, o Opts) Result {
	if l.parent.K == KObj {
		l.parent.Set(DecodeTok(l.key), v)
		return Result{}
	}
	i, r := arrIndex(l.parent, l.key, o, true)
	if r.Cause != COK {
		return r
	}
	a := l.parent
	a.Arr = append(a.Arr, nil)
	copy(a.Arr[i+1:], a.Arr[i:])
	a.Arr[i] = v
	return Result{}
}

func add(root **V, p string, v *V, o Opts) Result {
	if p == "" {
		return rootReplace(root, v)
	}
	l, r := walk(*root, p, o)
	if r.Cause != COK {
		return r
	}
	return addAt(l, v, o)
}

func remove(root **V, p string, o Opts) Result {
	if p == "" {
		return ood("remove of the root")
	}
	l, r := walk(*root, p, o)
	if r.Cause != COK {
		return r
	}
	if l.parent.K == KObj {
		if !l.parent.Del(DecodeTok(l.key)) {
			return Result{Cause: CAbsentMember}
		}
		return Result{}
	}
	i, r := arrIndex(l.parent, l.key, o, false)
	if r.Cause != COK {
		return r
	}
	a := l.parent
	a.Arr = append(append([]*V{}, a.Arr[:i]...), a.Arr[i+1:]...)
	return Result{}
}

// ensureAdd is add under EnsurePathExistsOnAdd, judged only in the clear
// domain of C14; everything else is COutOfDomain.
func ensureAdd(root **V, p string, v *V, o Opts) Result {
	toks, r := SplitPointer(p)
	if r.Cause != COK {
		return r
	}
	for i, t := range toks {
		last := i == len(toks)-1
		if t == "-" && !last {
			return ood("ensure: '-' before the last token")
		}
		if _, neg, ok := ParseIdx(t); ok && neg {
			return ood("ensure: negative index")
		}
		if _, _, ok := ParseIdx(t); !ok && IsAtoiish(t) {
			return ood("ensure: non-canonical index spelling")
		}
	}
	isIdx := func(t string) bool { _, neg, ok := ParseIdx(t); return ok && !neg }
	res := Result{}
	cur := *root
	for i, t := range toks[:len(toks)-1] {
		next := toks[i+1]
		mk := func() *V {
			res.Created++
			if isIdx(next) || next == "-" {
				a := Arr()
				if isIdx(next) {
					n, _, _ := ParseIdx(next)
					if n > 100000 {
						n = 100000
					}
					for j := 0; j < n; j++ {
						a.Arr = append(a.Arr, Null())
						res.Padded++
					}
				}
				return a
			}
			return Obj()
		}
		switch cur.K {
		case KObj:
			nx, ok := cur.Get(DecodeTok(t))
			if !ok {
				nx = mk()
				cur.Set(DecodeTok(t), nx)
			} else if !nx.IsContainer() {
				return ood("ensure: null or scalar on the path")
			}
			cur = nx
		case KArr:
			if !isIdx(t) {
				// an existing array has no members to descend into or to create: the add cannot be
				// applied, with or without the option (the option creates MISSING parents only).
				// As without the option, this is a parent location that cannot be reached.
				return Result{Cause: CParentUnreachable}
			}
			n, _, _ := ParseIdx(t)
			if n < len(cur.Arr) {
				nx := cur.Arr[n]
				if !nx.IsContainer() {
					return ood("ensure: null or scalar on the path")
				}
				cur = nx
			} else {
				if n > 100000 {
					return ood("ensure: index above 10^5")
				}
				for len(cur.Arr) < n {
					cur.Arr = append(cur.Arr, Null())
					res.Padded++
				}
				nx := mk()
				cur.Arr = append(cur.Arr, nx)
				cur = nx
			}
		}
	}
	last := toks[len(toks)-1]
	switch cur.K {
	case KObj:
		cur.Set(DecodeTok(last), v)
	case KArr:
		switch {
		case last == "-":
			cur.Arr = append(cur.Arr, v)
		case isIdx(last):
			n, _, _ := ParseIdx(last)
			if n > len(cur.Arr) {
				return ood("ensure: last index beyond the length of the array")
			}
			cur.Arr = append(cur.Arr, nil)
			copy(cur.Arr[n+1:], cur.Arr[n:])
			cur.Arr[n] = v
		default:
			return Result{Cause: CIndexSyntax}
		}
	}
	return res
}

// State carries what the evaluator accumulates across operations.
type State struct {
	Root *V
	// Lo, Hi: bounds of the accumulated copy size (a copied null counts 0..4).
	Lo, Hi int64
	// Sizes, when set, gives the size bounds of the 1st, 2nd, ... copy as
	// measured elsewhere (inputs in a spelling other than the encoder's own);
	// copies beyond the list fall back to the canonical size. Copies counts them.
	Sizes  [][2]int64
	Copies int
}

// Step evaluates one operation on st (mutating st.Root in place; on failure
// st.Root may be left partially edited — evaluation stops there anyway).
func Step(st *State, op Op, o Opts) Result {
	root := &st.Root
	switch op.Op {
	case "add":
		if op.Value == nil {
			return ood("add without value")
		}
		if o.Ensure && op.Path != "" {
			return ensureAdd(root, op.Path, op.Value.Clone(), o)
		}
		return add(root, op.Path, op.Value.Clone(), o)
	case "remove":
		r := remove(root, op.Path, o)
		if o.AllowMissing {
			switch r.Cause {
			case CParentUnreachable, CAbsentMember, CIndexRange:
				if r.Fuzzy {
					return ood("allow-missing: negative-while-off or malformed index on the way")
				}
				return Result{Skipped: true}
			case CNegOff, CIndexSyntax:
				return ood("allow-missing: negative-while-off or malformed last token")
			case CBadPointer:
				return ood("allow-missing: pointer without leading slash")
			}
		}
		return r
	case "replace":
		if op.Value == nil {
			return ood("replace without value")
		}
		if op.Path == "" {
			return rootReplace(root, op.Value.Clone())
		}
		l, r := walk(*root, op.Path, o)
		if r.Cause != COK {
			return r
		}
		if l.parent.K == KObj {
			if _, ok := l.parent.Get(DecodeTok(l.key)); !ok {
				return Result{Cause: CAbsentMember}
			}
			l.parent.Set(DecodeTok(l.key), op.Value.Clone())
			return Result{}
		}
		j, r := arrIndex(l.parent, l.key, o, false)
		if r.Cause != COK {
			return r
		}
		l.parent.Arr[j] = op.Value.Clone()
		return Result{}
	case "move":
		if op.From == "" {
			return Result{Cause: CMoveRoot}
		}
		if op.Path == "" {
			return ood("move to the root")
		}
		v, r := Lookup(*root, op.From, o)
		if r.Cause != COK {
			return r
		}
		if r = remove(root, op.From, o); r.Cause != COK {
			return r
		}
		return add(root, op.Path, v, o)
	case "copy":
		if op.Path == "" {
			return ood("copy to the root")
		}
		v, r := Lookup(*root, op.From, o)
		if r.Cause != COK {
			return r
		}
		l, r := walk(*root, op.Path, o)
		if r.Cause != COK {
			return r
		}
		// the size is accounted before the value is inserted
		res := Result{Copied: v.Clone()}
		sz := int64(len(v.Text(o.Esc)))
		switch {
		case st.Copies < len(st.Sizes):
			st.Lo += st.Sizes[st.Copies][0]
			st.Hi += st.Sizes[st.Copies][1]
		case v.K == KNull:
			st.Hi += 4
		default:
			st.Lo += sz
			st.Hi += sz
		}
		st.Copies++
		over := false
		if o.Limit > 0 {
			if st.Lo > o.Limit {
				over = true
			} else if st.Hi > o.Limit {
				return ood("copy limit falls inside the null-size interval")
			}
		}
		ar := addAt(l, res.Copied, o)
		switch {
		case over && ar.Cause == COutOfDomain:
			return ar
		case over && ar.Cause != COK:
			res.Cause, res.Alt = CCopyLimit, ar.Cause
		case over:
			res.Cause = CCopyLimit
		default:
			res.Cause, res.Why, res.Fuzzy = ar.Cause, ar.Why, ar.Fuzzy
		}
		return res
	case "test":
		if op.Value == nil {
			return ood("test without value")
		}
		v, r := Lookup(*root, op.Path, o)
		if r.Cause == CAbsentMember {
			v, r = Null(), Result{}
		}
		if r.Cause != COK {
			return r
		}
		if NumSpellingIssue(v, op.Value) {
			return ood("test compares numbers equal in value but spelled differently")
		}
		if !Equal(v, op.Value) {
			return Result{Cause: CTestUnequal}
		}
		return Result{}
	}
	return ood("unknown op " + op.Op)
}

// Outcome of a whole patch.
type Outcome struct {
	Doc     *V // result document when every operation succeeded
	FailAt  int
	Res     Result // result of the failing (or out-of-domain) operation
	Applied int    // operations evaluated successfully before the verdict
	Skipped []int  // indices of removes forgiven by AllowMissing
	Results []Result
}

func (o Outcome) OK() bool          { return o.FailAt < 0 }
func (o Outcome) OutOfDomain() bool { return o.FailAt >= 0 && o.Res.Cause == COutOfDomain }

// Apply evaluates ops against a clone of doc.
func Apply(doc *V, ops []Op, o Opts) Outcome {
	st := &State{Root: doc.Clone(), Sizes: o.CopySizes}
	out := Outcome{FailAt: -1}
	for i, op := range ops {
		r := Step(st, op, o)
		out.Results = append(out.Results, r)
		if r.Cause != COK {
			out.FailAt, out.Res = i, r
			return out
		}
		if r.Skipped {
			out.Skipped = append(out.Skipped, i)
		}
		out.Applied++
	}
	out.Doc = st.Root
	return out
}

// ---------- patch documents ----------

// OpsFromTree reads operations from a parsed patch document that the
// independent validator accepts. It returns an error for anything else.
func OpsFromTree(p *V) ([]Op, error) {
	if p.K != KArr {
		return nil, fmt.Errorf("patch root is %v", p.K)
	}
	var ops []Op
	for i, e := range p.Arr {
		if e.K != KObj {
			return nil, fmt.Errorf("element %d is %v", i, e.K)
		}
		if e.HasDupShallow() {
			return nil, fmt.Errorf("element %d has duplicate members", i)
		}
		var op Op
		k, ok := e.Get("op")
		if !ok || k.K != KStr {
			return nil, fmt.Errorf("element %d: bad op", i)
		}
		op.Op = k.Str
		switch op.Op {
		case "add", "remove", "replace", "move", "copy", "test":
		default:
			return nil, fmt.Errorf("element %d: unknown op %q", i, op.Op)
		}
		pth, ok := e.Get("path")
		if !ok || pth.K != KStr {
			return nil, fmt.Errorf("element %d: bad path", i)
		}
		op.Path = pth.Str
		if op.Op == "move" || op.Op == "copy" {
			f, ok := e.Get("from")
			if !ok || f.K != KStr {
				return nil, fmt.Errorf("element %d: bad from", i)
			}
			op.From = f.Str
		}
		if v, ok := e.Get("value"); ok {
			op.Value = v
		} else if op.Op == "add" || op.Op == "replace" {
			return nil, fmt.Errorf("element %d: missing value", i)
		}
		ops = append(ops, op)
	}
	return ops, nil
}

// HasDupShallow reports a duplicated member name in this object only.
func (v *V) HasDupShallow() bool {
	for i, k := range v.Keys {
		for _, k2 := range v.Keys[i+1:] {
			if k == k2 {
				return true
			}
		}
	}
	return false
}

// OpsTree builds the patch document for ops.
func OpsTree(ops []Op) *V {
	a := Arr()
	for _, op := range ops {
		o := Obj()
		o.Set("op", Str(op.Op))
		o.Set("path", Str(op.Path))
		if op.Op == "move" || op.Op == "copy" {
			o.Set("from", Str(op.From))
		}
		if op.Value != nil {
			o.Set("value", op.Value)
		}
		a.Arr = append(a.Arr, o)
	}
	return a
}

// OpsText is the patch document for ops in canonical spelling.
func OpsText(ops []Op, esc bool) string { return OpsTree(ops).Text(esc) }

// ---------- RFC 7396 ----------

// Merge is MergePatch(target, patch) of RFC 7396 section 2 (target may be nil
// for "absent"). New members are appended, surviving ones keep their place.
func Merge(target, patch *V) *V {
	if patch.K != KObj {
		return patch.Clone()
	}
	var t *V
	if target == nil || target.K != KObj {
		t = Obj()
	} else {
		t = target.Clone()
	}
	for i, k := range patch.Keys {
		pv := patch.Vals[i]
		if pv.K == KNull {
			t.Del(k)
			continue
		}
		cur, _ := t.Get(k)
		t.Set(k, Merge(cur, pv))
	}
	return t
}
