// C03 — CreateMergePatch yields a minimal patch that reproduces the target (v5).
package c03

import (
	"fmt"
	"testing"

	jp "github.com/evanphx/json-patch/v5"
	"github.com/evanphx/json-patch/v5/xverif/ev"
	"github.com/evanphx/json-patch/v5/xverif/gen"
	"github.com/evanphx/json-patch/v5/xverif/laws"
	"github.com/evanphx/json-patch/v5/xverif/ref"
	"pgregory.net/rapid"
)

type Case struct {
	A string `json:"a"`
	B string `json:"b"`
}

var cfg = func() gen.Cfg {
	c := gen.WithEmptyName
	c.Nums = append(append([]string{}, c.Nums...), "9007199254740993", "0.1000000000000000055511151231257827", "123456789012345678901234567890", "1e-400")
	return c
}()

// noNullMember rewrites v so that no object member is null (construction, not rejection).
func noNullMember(v *ref.V) *ref.V {
	switch v.K {
	case ref.KObj:
		o := ref.Obj()
		for i, k := range v.Keys {
			if v.Vals[i].K == ref.KNull {
				o.Set(k, ref.Bool(false))
			} else {
				o.Set(k, noNullMember(v.Vals[i]))
			}
		}
		return o
	case ref.KArr:
		a := ref.Arr()
		for _, e := range v.Arr {
			a.Arr = append(a.Arr, noNullMember(e))
		}
		return a
	}
	return v
}

func drawPair(t *rapid.T) (a, b *ref.V) {
	a = cfg.Object(3).Draw(t, "a")
	b = cfg.Mutate(t, a, 2)
	if b.K != ref.KObj {
		b = cfg.Object(3).Draw(t, "b")
	}
	if !gen.OneIn(t, 8, "keepnulls") {
		b = noNullMember(b)
	}
	return a, b
}

func drawObj(t *rapid.T) Case {
	a, b := drawPair(t)
	return Case{A: a.Text(false), B: b.Text(false)}
}

func drawArr(t *rapid.T) Case {
	n := gen.Uniform(t, 0, 3, "n")
	x, y := ref.Arr(), ref.Arr()
	for i := 0; i < n; i++ {
		a, b := drawPair(t)
		x.Arr = append(x.Arr, a)
		y.Arr = append(y.Arr, b)
	}
	if gen.OneIn(t, 4, "ws") {
		return Case{A: gen.Spell(t, x, "sa"), B: gen.Spell(t, y, "sb")}
	}
	return Case{A: x.Text(false), B: y.Text(false)}
}

func drawReject(t *rapid.T) Case {
	obj := func(l string) *ref.V { return cfg.Object(2).Draw(t, l) }
	objArr := func(l string, n int) *ref.V {
		a := ref.Arr()
		for i := 0; i < n; i++ {
			a.Arr = append(a.Arr, obj(l))
		}
		return a
	}
	nonNullScalar := func(l string) *ref.V {
		v := cfg.Scalar().Draw(t, l)
		if v.K == ref.KNull {
			v = ref.Num("1")
		}
		return v
	}
	var a, b *ref.V
	switch gen.Uniform(t, 0, 8, "rk") {
	case 7: // the same non-object element on both sides at the same index (identical bytes, or arrays of objects one level down)
		n := gen.Uniform(t, 1, 3, "n")
		a, b = objArr("a", n), objArr("b", n)
		i := gen.Uniform(t, 0, n-1, "i")
		switch gen.Uniform(t, 0, 3, "same") {
		case 0:
			a.Arr[i], b.Arr[i] = ref.Arr(), ref.Arr()
		case 1:
			m := gen.Uniform(t, 0, 2, "m")
			a.Arr[i], b.Arr[i] = objArr("ia", m), objArr("ib", m)
		case 2:
			s := nonNullScalar("s")
			a.Arr[i], b.Arr[i] = s, s.Clone()
		default:
			x := ref.Arr(objArr("xa", 1))
			a.Arr[i], b.Arr[i] = x, x.Clone()
		}
	case 8: // identical non-object roots
		s := nonNullScalar("s")
		if rapid.Bool().Draw(t, "arr") {
			s = ref.Arr(s, nonNullScalar("s2"))
		}
		a, b = s, s.Clone()
	case 0:
		a, b = obj("a"), objArr("b", gen.Uniform(t, 0, 2, "n"))
	case 1:
		a, b = objArr("a", gen.Uniform(t, 0, 2, "n")), obj("b")
	case 2:
		a, b = nonNullScalar("a"), obj("b")
	case 3:
		a, b = obj("a"), nonNullScalar("b")
	case 4:
		a, b = nonNullScalar("a"), nonNullScalar("b")
	case 5: // unequal lengths
		n := gen.Uniform(t, 0, 2, "n")
		a, b = objArr("a", n), objArr("b", n+1+gen.Uniform(t, 0, 1, "m"))
		if rapid.Bool().Draw(t, "swap") {
			a, b = b, a
		}
	case 6: // arrays with a non-object, non-null element
		n := gen.Uniform(t, 1, 3, "n")
		a, b = objArr("a", n), objArr("b", n)
		i := gen.Uniform(t, 0, n-1, "i")
		bad := cfg.Value(1).Draw(t, "bad")
		if bad.K == ref.KObj || bad.K == ref.KNull {
			bad = ref.Arr(ref.Num("1"))
		}
		if rapid.Bool().Draw(t, "ina") {
			a.Arr[i] = bad
		} else {
			b.Arr[i] = bad
		}
	}
	return Case{A: a.Text(false), B: b.Text(false)}
}

func classes(a, b *ref.V) (nt bool, cl []string) {
	nestedDiff := false
	for i, k := range a.Keys {
		if bv, ok := b.Get(k); ok && a.Vals[i].K == ref.KObj && bv.K == ref.KObj && !ref.Equal(a.Vals[i], bv) {
			nestedDiff = true
		}
	}
	removed := false
	for _, k := range a.Keys {
		if _, ok := b.Get(k); !ok {
			removed = true
		}
	}
	if nestedDiff {
		cl = append(cl, "nested-difference")
	}
	if removed {
		cl = append(cl, "removed-member")
	}
	if ref.Equal(a, b) {
		cl = append(cl, "equal")
	}
	return !ref.Equal(a, b) && (nestedDiff || removed), cl
}

func checkObj(c Case) ev.Verdict {
	a, e1 := ref.Parse([]byte(c.A))
	b, e2 := ref.Parse([]byte(c.B))
	if e1 != nil || e2 != nil || a.K != ref.KObj || b.K != ref.KObj || a.HasDup() || b.HasDup() {
		return ev.Excluded("not a pair of duplicate-free objects")
	}
	if b.HasNullMember() {
		return ev.Excluded("B has a null-valued member (not expressible in RFC 7396)", "b-has-null-member")
	}
	if ref.NumSpellingIssue(a, b) {
		return ev.Excluded("numbers equal in value but spelled differently")
	}
	var out []byte
	var err error
	if pn := ev.Safe(func() { out, err = jp.CreateMergePatch([]byte(c.A), []byte(c.B)) }); pn != nil {
		return ev.Verdict{Err: pn}
	}
	v := ev.Verdict{}
	v.NonTrivial, v.Classes = classes(a, b)
	if err != nil {
		v.Err = fmt.Errorf("CreateMergePatch failed on two objects: %v", err)
		return v
	}
	p, perr := ref.Parse(out)
	if perr != nil {
		v.Err = fmt.Errorf("patch not well-formed: %q", out)
		return v
	}
	if err := laws.ObjectLaws(a, b, p, []byte(c.A), out, jp.MergePatch); err != nil {
		v.Err = err
	}
	return v
}

func checkArr(c Case) ev.Verdict {
	a, e1 := ref.Parse([]byte(c.A))
	b, e2 := ref.Parse([]byte(c.B))
	if e1 != nil || e2 != nil || a.K != ref.KArr || b.K != ref.KArr || len(a.Arr) != len(b.Arr) || a.HasDup() || b.HasDup() {
		return ev.Excluded("not two equal-length arrays")
	}
	for i := range a.Arr {
		if a.Arr[i].K != ref.KObj || b.Arr[i].K != ref.KObj {
			return ev.Excluded("not arrays of objects")
		}
	}
	if b.HasNullMember() {
		return ev.Excluded("B has a null-valued member", "b-has-null-member")
	}
	if ref.NumSpellingIssue(a, b) {
		return ev.Excluded("numbers equal in value but spelled differently")
	}
	var out []byte
	var err error
	if pn := ev.Safe(func() { out, err = jp.CreateMergePatch([]byte(c.A), []byte(c.B)) }); pn != nil {
		return ev.Verdict{Err: pn}
	}
	v := ev.Verdict{Classes: []string{fmt.Sprintf("len=%d", len(a.Arr))}}
	if err != nil {
		v.Err = fmt.Errorf("CreateMergePatch failed on two equal-length arrays of objects: %v", err)
		return v
	}
	p, perr := ref.Parse(out)
	if perr != nil || p.K != ref.KArr || len(p.Arr) != len(a.Arr) {
		v.Err = fmt.Errorf("result is not an array of %d patches: %q", len(a.Arr), out)
		return v
	}
	for i := range a.Arr {
		nt, _ := classes(a.Arr[i], b.Arr[i])
		v.NonTrivial = v.NonTrivial || nt
		if err := laws.ObjectLaws(a.Arr[i], b.Arr[i], p.Arr[i], []byte(a.Arr[i].Text(false)), []byte(p.Arr[i].Text(false)), jp.MergePatch); err != nil {
			v.Err = fmt.Errorf("element %d: %v", i, err)
			return v
		}
	}
	return v
}

func rootShape(v *ref.V) string {
	switch v.K {
	case ref.KObj:
		return "object"
	case ref.KArr:
		for _, e := range v.Arr {
			if e.K != ref.KObj {
				return "array-with-non-object"
			}
		}
		return fmt.Sprintf("array-of-objects")
	}
	return v.K.String()
}

func checkReject(c Case) ev.Verdict {
	a, e1 := ref.Parse([]byte(c.A))
	b, e2 := ref.Parse([]byte(c.B))
	if e1 != nil || e2 != nil {
		return ev.Excluded("not well-formed (C16)")
	}
	hasNull := func(v *ref.V) bool {
		if v.K == ref.KNull {
			return true
		}
		if v.K == ref.KArr {
			for _, e := range v.Arr {
				if e.K == ref.KNull {
					return true
				}
			}
		}
		return false
	}
	if hasNull(a) || hasNull(b) {
		return ev.Excluded("null root or null element (read as an empty object; outside the stated domain)")
	}
	sa, sb := rootShape(a), rootShape(b)
	acceptable := (sa == "object" && sb == "object") || (sa == "array-of-objects" && sb == "array-of-objects" && len(a.Arr) == len(b.Arr))
	if acceptable {
		return ev.Excluded("acceptable pair (other units)")
	}
	var out []byte
	var err error
	if pn := ev.Safe(func() { out, err = jp.CreateMergePatch([]byte(c.A), []byte(c.B)) }); pn != nil {
		return ev.Verdict{Err: pn}
	}
	v := ev.Verdict{Classes: []string{sa + " vs " + sb}, NonTrivial: true}
	if err == nil {
		v.Err = fmt.Errorf("inputs are neither two objects nor two equal-length arrays of objects, yet CreateMergePatch returned %s", out)
	}
	return v
}

var (
	objUnit = ev.Unit[Case]{Name: "objects", Draw: drawObj, Check: checkObj,
		Rule: "object A x B = mutation of A (members deleted/added/replaced, recursion, type change at depth, arrays holding objects, numbers beyond float64 precision), B built without null members; oracle: CreateMergePatch succeeds, reference RFC 7396 and library MergePatch give B, P={} iff A=B, and the minimality walk (null <=> removed, mentioned => differs, nested objects hold the recursive difference, literals carried over); non-trivial = A != B with a nested object difference or a removed member"}
	arrUnit = ev.Unit[Case]{Name: "arrays-of-objects", Draw: drawArr, Check: checkArr,
		Rule: "two equal-length (0-3) arrays of object pairs as above, some with whitespace; the result must be an array of per-element patches each satisfying the object laws; non-trivial = some element pair is non-trivial"}
	rejUnit = ev.Unit[Case]{Name: "rejection", Draw: drawReject, Check: checkReject,
		Rule: "pairs of well-formed roots that are not both objects nor both equal-length arrays of objects (object/array, scalar/object, scalar/scalar, unequal lengths, arrays with a non-object element; null roots and null elements excluded); oracle: an error; every judged case is non-trivial"}
)

func TestProp(t *testing.T)       { ev.RunProp(t, "C03", objUnit) }
func TestPropArr(t *testing.T)    { ev.RunProp(t, "C03", arrUnit) }
func TestPropReject(t *testing.T) { ev.RunProp(t, "C03", rejUnit) }
func TestReplay(t *testing.T) {
	ev.Replay(t, map[string]ev.Replayer{objUnit.Name: objUnit.Replayer(), arrUnit.Name: arrUnit.Replayer(), rejUnit.Name: rejUnit.Replayer()})
}
