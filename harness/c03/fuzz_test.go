package c03

import (
	"testing"

	"github.com/evanphx/json-patch/v5/xverif/ev"
)

// FuzzCreate: pairs of texts through the object, array and rejection oracles
// (each excludes what is outside its domain).
func FuzzCreate(f *testing.F) {
	for _, a := range []string{`{"a":{"b":1,"c":[{"x":1,"y":2}]},"d":9007199254740993,"e":"s"}`, `[{"a":1},{"b":{"c":2}}]`, `{}`, `[]`, `[1]`} {
		for _, b := range []string{`{"a":{"b":2,"c":[{"x":1}]},"d":9007199254740992,"f":{}}`, `[{"a":1,"z":0},{"b":{}}]`, `{}`, `[{}]`, `"s"`} {
			f.Add([]byte(a), []byte(b))
		}
	}
	f.Fuzz(func(t *testing.T, a, b []byte) {
		c := Case{A: string(a), B: string(b)}
		ev.FuzzCheck(t, "C03", objUnit, c)
		ev.FuzzCheck(t, "C03", arrUnit, c)
		ev.FuzzCheck(t, "C03", rejUnit, c)
	})
}
