// Package laws holds oracles shared by the v5 and the legacy checks of the
// merge-patch functions: the minimality walk and round trip of CreateMergePatch
// and the compatibility condition of MergeMergePatches. The library functions
// are passed in, so the same laws run against either package.
package laws

import (
	"fmt"

	"github.com/evanphx/json-patch/v5/xverif/ev"
	"github.com/evanphx/json-patch/v5/xverif/ref"
)

// MergeFn is MergePatch of the package under test.
type MergeFn func(doc, patch []byte) ([]byte, error)

// checkMinimal: clause (3) of the design, walking P against A and B.
func CheckMinimal(a, b, p *ref.V, path string) error {
	if p.K != ref.KObj {
		return fmt.Errorf("%s: patch is not an object", path)
	}
	for i, k := range p.Keys {
		pv := p.Vals[i]
		av, aok := a.Get(k)
		bv, bok := b.Get(k)
		switch {
		case pv.K == ref.KNull:
			if !aok || bok {
				return fmt.Errorf("%s/%s: null in the patch but A has it=%v, B has it=%v", path, k, aok, bok)
			}
		case !bok:
			return fmt.Errorf("%s/%s: the patch mentions a member absent from B", path, k)
		case aok && av.K == ref.KObj && bv.K == ref.KObj:
			if ref.Equal(av, bv) {
				return fmt.Errorf("%s/%s: mentioned although A and B are equal there", path, k)
			}
			if err := CheckMinimal(av, bv, pv, path+"/"+k); err != nil {
				return err
			}
		default:
			if aok && ref.Equal(av, bv) {
				return fmt.Errorf("%s/%s: mentioned although A and B are equal there", path, k)
			}
			if !ref.Equal(pv, bv) {
				return fmt.Errorf("%s/%s: patch value %s is not B's value %s (number literals must be carried over unchanged)", path, k, pv, bv)
			}
		}
	}
	for _, k := range a.Keys {
		if _, bok := b.Get(k); !bok {
			if pv, ok := p.Get(k); !ok || pv.K != ref.KNull {
				return fmt.Errorf("%s/%s: removed member does not appear as null", path, k)
			}
		}
	}
	return nil
}

// ObjectLaws checks clauses (1)-(3) for one object pair and its patch.
func ObjectLaws(a, b, p *ref.V, at, pt []byte, merge MergeFn) error {
	if p.K != ref.KObj {
		return fmt.Errorf("patch %s is not an object", pt)
	}
	if got := ref.Merge(a, p); !ref.Equal(got, b) {
		return fmt.Errorf("applying the patch per RFC 7396 does not give B\n patch: %s\n got:   %s", pt, got)
	}
	var m []byte
	var err error
	if pn := ev.Safe(func() { m, err = merge(at, pt) }); pn != nil {
		return pn
	}
	if err != nil {
		return fmt.Errorf("the library's MergePatch rejects the created patch %s: %v", pt, err)
	}
	mv, perr := ref.Parse(m)
	if perr != nil || !ref.Equal(mv, b) {
		return fmt.Errorf("the library's MergePatch(A, P) does not give B\n patch: %s\n got:   %s", pt, m)
	}
	if (len(p.Keys) == 0) != ref.Equal(a, b) {
		return fmt.Errorf("P is {} exactly when A equals B is violated: P=%s", pt)
	}
	return CheckMinimal(a, b, p, "")
}

// Compat: wherever p2 holds an object, p1 holds an object or nothing.
func Compat(p1, p2 *ref.V) bool {
	if p2.K != ref.KObj {
		return true
	}
	for i, k := range p2.Keys {
		v2 := p2.Vals[i]
		if v2.K != ref.KObj {
			continue
		}
		v1, ok := p1.Get(k)
		if !ok {
			continue
		}
		if v1.K != ref.KObj || !Compat(v1, v2) {
			return false
		}
	}
	return true
}

// SharedNull: P1 and P2 share a member path of depth >= 1 and one of them has a null there.
func SharedNull(p1, p2 *ref.V, depth int) bool {
	if p1.K != ref.KObj || p2.K != ref.KObj {
		return false
	}
	for i, k := range p2.Keys {
		v1, ok := p1.Get(k)
		if !ok {
			continue
		}
		v2 := p2.Vals[i]
		if depth >= 1 && (v1.K == ref.KNull || v2.K == ref.KNull) {
			return true
		}
		if SharedNull(v1, v2, depth+1) {
			return true
		}
	}
	return false
}
