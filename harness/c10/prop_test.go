// C10 — safe for concurrent use, including a shared Patch (v5 module and the
// staged legacy root package). Built with the race detector by the driver.
//
// A case is a workload: a pool of shared read-only buffers, Patch values
// decoded once and shared by every goroutine, and per goroutine a list of
// calls (shared or private arguments, optional yields) repeated for some
// rounds behind a start barrier under a generated GOMAXPROCS. Oracles: the race
// detector (a report ends the process; the driver turns the pending case into
// the replay file), every concurrent result equals the result of the same call
// computed sequentially before the goroutines start, and all shared inputs
// and Patch values are unchanged afterwards. Some workloads run as cold
// starts in a fresh process, where the first uses of the codec's caches and
// pools happen concurrently.
package c10

import (
	"bytes"
	"crypto/sha256"
	"encoding/hex"
	"encoding/json"
	"fmt"
	"os"
	"os/exec"
	"runtime"
	"strings"
	"sync"
	"testing"

	"github.com/evanphx/json-patch/v5/xverif/calls"
	"github.com/evanphx/json-patch/v5/xverif/ev"
	"github.com/evanphx/json-patch/v5/xverif/gen"
	"pgregory.net/rapid"
)

// Step is one call of a goroutine.
type Step struct {
	calls.Call
	// Private: the goroutine uses its own copies of the argument buffers and
	// its own decoded Patch instead of the shared ones.
	Private bool `json:"private,omitempty"`
	Yield   bool `json:"yield,omitempty"` // runtime.Gosched() before the call
}

// Case is one workload.
type Case struct {
	Pkg     string       `json:"package"`
	Bufs    []calls.Text `json:"buffers"`
	Threads [][]Step     `json:"goroutines"`
	Rounds  int          `json:"rounds"`
	Procs   int          `json:"gomaxprocs"`
	Cold    bool         `json:"cold_start,omitempty"`
	// Defaults: the package-level defaults are assigned by the goroutine that
	// starts the others, before any call of the workload (and put back after it).
	Defaults *PkgDefaults `json:"package_defaults,omitempty"`
	// Kind "together": every goroutine starts with the same expensive call (deeply
	// nested or large arguments), so that many of them are inside it at the same moment.
	Kind string `json:"kind,omitempty"`
}

type PkgDefaults struct {
	Neg   bool  `json:"support_negative_indices"`
	Limit int64 `json:"accumulated_copy_size_limit"`
}

func (c Case) setDefaults(api calls.API) func() {
	if c.Defaults == nil {
		return func() {}
	}
	return api.Defaults(c.Defaults.Neg, c.Defaults.Limit)
}

// defaultsIntact: the package-level defaults are the caller's; the library only reads them.
func (c Case) defaultsIntact(api calls.API) error {
	if c.Defaults == nil {
		return nil
	}
	if n, l := api.ReadDefaults(); n != c.Defaults.Neg || l != c.Defaults.Limit {
		return fmt.Errorf("after the workload: the package-level defaults were rewritten: SupportNegativeIndices=%v AccumulatedCopySizeLimit=%d, assigned %v and %d", n, l, c.Defaults.Neg, c.Defaults.Limit)
	}
	return nil
}

func draw(pkg string) func(*rapid.T) Case {
	return func(t *rapid.T) Case {
		pool := calls.DrawPool(t, pkg == "legacy")
		opts := calls.DrawOptionSets(t)
		c := Case{Pkg: pkg, Bufs: pool.Bufs,
			Rounds: gen.Uniform(t, 1, 3, "rounds"),
			Procs:  rapid.SampledFrom([]int{1, 2, 4, 16}).Draw(t, "procs"),
			Cold:   gen.OneIn(t, 12, "cold")}
		if gen.OneIn(t, 4, "pkgdefaults") {
			c.Defaults = &PkgDefaults{Neg: rapid.Bool().Draw(t, "pdneg"), Limit: rapid.SampledFrom([]int64{0, 0, 40, 400, -1}).Draw(t, "pdlimit")}
		}
		// a common list of calls that several goroutines perform (so that the same
		// shared Patch and buffers are used at the same time), plus a few of their own
		nc := gen.Uniform(t, 3, 10, "ncommon")
		common := make([]calls.Call, nc)
		for i := range common {
			common[i] = calls.DrawCall(t, pool, opts)
			common[i].Fresh = false
		}
		n := rapid.SampledFrom([]int{2, 4, 8, 16}).Draw(t, "ngoroutines")
		for g := 0; g < n; g++ {
			var th []Step
			k := gen.Uniform(t, 2, 12, "nsteps")
			for i := 0; i < k; i++ {
				var cl calls.Call
				if gen.OneIn(t, 4, "own") {
					cl = calls.DrawCall(t, pool, opts)
					cl.Fresh = false
				} else {
					cl = common[gen.Uniform(t, 0, nc-1, "ci")]
				}
				th = append(th, Step{Call: cl, Private: gen.OneIn(t, 6, "private"), Yield: gen.OneIn(t, 4, "yield")})
			}
			c.Threads = append(c.Threads, th)
		}
		return c
	}
}

// drawTogether: workloads whose goroutines are all inside the same long-running call
// at the same moment - deep recursions side by side (1 000-3 500 levels each, far more
// than 10 000 in total), large texts validated side by side - with nothing but the
// argument buffers in common. Whatever a call keeps per process rather than per call
// (a depth or size budget, a scratch buffer, a helper goroutine) shows here.
func drawTogether(pkg string) func(*rapid.T) Case {
	return func(t *rapid.T) Case {
		d := rapid.SampledFrom([]int{1000, 1500, 2500, 3500}).Draw(t, "depth")
		dm := rapid.SampledFrom([]int{200, 400, 700}).Draw(t, "mergedepth")
		key := rapid.SampledFrom([]string{"a", "k", "\\u0061b"}).Draw(t, "key")
		nest := func(leaf string, n int) calls.Text {
			return calls.Text(strings.Repeat(`{"`+key+`":`, n) + leaf + strings.Repeat("}", n))
		}
		big := func(n int, tail string) calls.Text {
			var sb strings.Builder
			sb.WriteString(`{"x":[`)
			for i := 0; sb.Len() < n; i++ {
				fmt.Fprintf(&sb, `{"n":%d,"s":"v%d"},`, i, i%7)
			}
			sb.WriteString(`null]` + tail)
			return calls.Text(sb.String())
		}
		kb := rapid.SampledFrom([]int{33, 40, 70, 120}).Draw(t, "kb") * 1024
		c := Case{Pkg: pkg, Kind: "together", Rounds: gen.Uniform(t, 1, 2, "rounds"),
			Procs: rapid.SampledFrom([]int{4, 16, 16, 16}).Draw(t, "procs"),
			Bufs: []calls.Text{
				0: nest("1", d), 1: nest(`{"z":2}`, d), 2: nest("null", d-gen.Uniform(t, 0, 3, "short")),
				3: calls.Text(`[{"op":"add","path":"/zz","value":[1,{"q":null}]},{"op":"test","path":"/zz/0","value":1}]`),
				4: calls.Text(`{"d":` + strings.Repeat("[", d) + "1" + strings.Repeat("]", d) + `,"e":1}`),
				5: big(kb, "}"), 6: big(kb+kb/2, `,"y":{"t":true}}`), 7: big(kb, `,"y":}`), 8: big(kb+4096, ""),
				// the merge functions are quadratic in the nesting depth (0.8 s at 3 500 levels, ten times
				// that under the race detector): they get their own, shallower, arguments
				9: nest("1", dm), 10: nest(`{"z":2}`, dm), 11: nest("null", dm-1),
			}}
		type ab struct {
			fn   string
			a, b int
		}
		menu := []ab{
			{calls.FCreate, 0, 1}, {calls.FCreate, 1, 0}, {calls.FCreate, 0, 2}, {calls.FMerge, 9, 10}, {calls.FMerge, 10, 11}, {calls.FMergeMerge, 10, 11},
			{calls.FApply, 0, 3}, {calls.FApply, 4, 3}, {calls.FCreate, 4, 0},
			{calls.FCreate, 5, 6}, {calls.FMerge, 6, 5}, {calls.FEqual, 5, 6}, {calls.FEqual, 6, 6}, {calls.FEqual, 6, 7}, {calls.FEqual, 5, 8}, {calls.FEqual, 7, 6},
			{calls.FCreate, 6, 7}, {calls.FMerge, 5, 8}, {calls.FApply, 6, 3}, {calls.FApplyIndent, 5, 3},
		}
		mk := func(m ab, l string) Step {
			cl := calls.Call{Fn: m.fn, A: m.a, B: m.b}
			if m.fn == calls.FApplyIndent {
				cl.Indent = " "
			}
			return Step{Call: cl, Private: gen.OneIn(t, 3, l+"private")}
		}
		first := menu[gen.Uniform(t, 0, len(menu)-1, "first")]
		n := rapid.SampledFrom([]int{6, 8, 12, 16}).Draw(t, "ngoroutines")
		for g := 0; g < n; g++ {
			th := []Step{mk(first, "f")}
			for k := gen.Uniform(t, 0, 1, "nmore"); k > 0; k-- {
				th = append(th, mk(menu[gen.Uniform(t, 0, len(menu)-1, "mi")], "m"))
			}
			c.Threads = append(c.Threads, th)
		}
		return c
	}
}

// ---------- running a workload ----------

type sharedPatch struct {
	p    any
	err  error
	snap string
}

// expected computes, sequentially, the result of every distinct signature of
// the workload, and decodes the shared Patch values.
func prepare(api calls.API, c Case, bufs []*calls.Buf) (map[int]*sharedPatch, error) {
	shared := map[int]*sharedPatch{}
	for _, th := range c.Threads {
		for _, st := range th {
			if st.NeedsPatch() {
				if _, ok := shared[st.B]; !ok {
					sp := &sharedPatch{}
					if p := ev.Safe(func() { sp.p, sp.err = api.Decode(bufs[st.B].B) }); p != nil {
						return nil, fmt.Errorf("DecodePatch panicked (sequentially): %v", p)
					}
					if sp.err == nil {
						sp.snap = api.Snapshot(sp.p)
					}
					shared[st.B] = sp
				}
			}
		}
	}
	return shared, nil
}

// sharedOpts builds the ApplyOptions values that all goroutines share (one per option set).
func sharedOpts(c Case) *calls.OptsCache {
	oc := calls.NewOptsCache()
	for _, th := range c.Threads {
		for _, st := range th {
			if !st.Private {
				oc.Prepare(st.Call)
			}
		}
	}
	return oc
}

func sequential(api calls.API, c Case, bufs []*calls.Buf, shared map[int]*sharedPatch) (map[string]calls.Result, error) {
	want := map[string]calls.Result{}
	big := calls.BigIndexPatches(c.Bufs)
	for _, th := range c.Threads {
		for _, st := range th {
			if st.Skips(big) {
				continue
			}
			sig := st.Sig(c.Bufs)
			if _, ok := want[sig]; ok {
				continue
			}
			var p any
			var perr error
			if st.NeedsPatch() {
				p, perr = shared[st.B].p, shared[st.B].err
			}
			r := calls.Exec(api, st.Call, bufs[st.A].B, bufs[st.B].B, p, perr, nil)
			if r.Panic != "" {
				return nil, fmt.Errorf("%s panicked when run alone: %s", st.Fn, r.Panic)
			}
			r.Out = append(calls.Text{}, r.Out...)
			want[sig] = r
		}
	}
	return want, nil
}

// concurrent runs the goroutines and returns the first mismatch per goroutine.
func concurrent(api calls.API, c Case, bufs []*calls.Buf, shared map[int]*sharedPatch, want map[string]calls.Result) []string {
	return concurrentMode(api, c, bufs, shared, want, false)
}

// concurrentMode with allPrivate: every step uses the goroutine's own buffers
// and its own DecodePatch (one round) - what a cold start runs first, so that
// the very first DecodePatch, Apply, merge and encode calls of the process overlap.
func concurrentMode(api calls.API, c Case, bufs []*calls.Buf, shared map[int]*sharedPatch, want map[string]calls.Result, allPrivate bool) []string {
	oc := sharedOpts(c)
	big := calls.BigIndexPatches(c.Bufs)
	old := runtime.GOMAXPROCS(c.Procs)
	defer runtime.GOMAXPROCS(old)
	errs := make([]string, len(c.Threads))
	start := make(chan struct{})
	var wg sync.WaitGroup
	for g := range c.Threads {
		wg.Add(1)
		go func(g int) {
			defer wg.Done()
			th := c.Threads[g]
			priv := map[int]*calls.Buf{}
			privPatch := map[int]*sharedPatch{}
			pbuf := func(i int) []byte {
				if b, ok := priv[i]; ok {
					return b.B
				}
				priv[i] = calls.NewBuf(c.Bufs[i])
				return priv[i].B
			}
			<-start
			rounds := c.Rounds
			if allPrivate {
				rounds = 1
			}
			for r := 0; r < rounds; r++ {
				for i, st := range th {
					st.Private = st.Private || allPrivate
					if st.Skips(big) {
						continue // index above 10^4 under EnsurePathExistsOnAdd: outside the stated domain
					}
					if st.Yield {
						runtime.Gosched()
					}
					var a, b []byte
					var p any
					var perr error
					use := oc
					if st.Private {
						use = nil
						a, b = pbuf(st.A), pbuf(st.B)
						if st.NeedsPatch() {
							sp, ok := privPatch[st.B]
							if !ok {
								sp = &sharedPatch{}
								if pn := ev.Safe(func() { sp.p, sp.err = api.Decode(b) }); pn != nil {
									errs[g] = fmt.Sprintf("goroutine %d step %d: DecodePatch panicked: %v", g, i, pn)
									return
								}
								privPatch[st.B] = sp
							}
							p, perr = sp.p, sp.err
						}
					} else {
						a, b = bufs[st.A].B, bufs[st.B].B
						if st.NeedsPatch() {
							p, perr = shared[st.B].p, shared[st.B].err
						}
					}
					got := calls.Exec(api, st.Call, a, b, p, perr, use)
					if st.Private && !st.NeedsPatch() {
						// the call has returned: the arguments are the caller's again, and a caller may
						// write to its own buffers (here: the same bytes once more). A library goroutine
						// still reading them is a race with a legal caller.
						copy(a, c.Bufs[st.A])
						if st.B != st.A {
							copy(b, c.Bufs[st.B])
						}
					}
					if exp := want[st.Sig(c.Bufs)]; !calls.Same(exp, got, st.ByValue()) {
						errs[g] = fmt.Sprintf("goroutine %d round %d step %d (%s, private=%v): concurrent result differs from the result of the same call run alone\n concurrent: %s\n alone: %s", g, r, i, st.Fn, st.Private, got, exp)
						return
					}
				}
			}
			for i, b := range priv {
				if err := b.Intact(); err != nil {
					errs[g] = fmt.Sprintf("goroutine %d: private buffer %d: %v", g, i, err)
					return
				}
			}
		}(g)
	}
	close(start)
	wg.Wait()
	if err := oc.Intact(); err != nil {
		errs[0] = "after the workload: " + err.Error()
	}
	return errs
}

func after(api calls.API, bufs []*calls.Buf, shared map[int]*sharedPatch) error {
	for i, b := range bufs {
		if err := b.Intact(); err != nil {
			return fmt.Errorf("after the workload: shared buffer %d: %v", i, err)
		}
	}
	for bi, sp := range shared {
		if sp.err == nil {
			if now := api.Snapshot(sp.p); now != sp.snap {
				return fmt.Errorf("after the workload: the shared Patch decoded from buffer %d was modified\n now: %s\n was: %s", bi, now, sp.snap)
			}
		}
	}
	return nil
}

// ---------- cold starts ----------

type coldReq struct {
	Case Case                    `json:"case"`
	Want map[string]calls.Result `json:"want"`
}

func runCold(c Case, want map[string]calls.Result) error {
	hw := map[string]calls.Result{} // signatures hold arbitrary bytes: key the transfer by their hash
	for k, v := range want {
		hw[sigKey(k)] = v
	}
	in, _ := json.Marshal(coldReq{c, hw})
	cmd := exec.Command(os.Args[0], "-test.run", "^TestColdChild$", "-test.count", "1")
	cmd.Env = append(os.Environ(), "VERIF_C10_COLD=1", "VERIF_PART=", "VERIF_FAIL=", "GORACE=halt_on_error=1 exitcode=66 atexit_sleep_ms=0")
	cmd.Stdin = bytes.NewReader(in)
	out, err := cmd.CombinedOutput()
	s := string(out)
	if i := strings.Index(s, "COLD-RESULT "); i >= 0 {
		line := s[i+12:]
		if j := strings.IndexByte(line, '\n'); j >= 0 {
			line = line[:j]
		}
		var msg string
		_ = json.Unmarshal([]byte(line), &msg)
		if msg == "" {
			return nil
		}
		return fmt.Errorf("cold start in a fresh process: %s", msg)
	}
	if strings.Contains(s, "DATA RACE") || strings.Contains(s, "fatal error") || strings.Contains(s, "panic:") {
		return fmt.Errorf("cold start in a fresh process died (%v):\n%s", err, headOf(s, 3000))
	}
	return fmt.Errorf("INFRA cold-start child gave no result (%v): %s", err, headOf(s, 600))
}

// wantFrom rebuilds the signature-keyed expectations from the hash-keyed transfer form.
func wantFrom(c Case, hw map[string]calls.Result) (map[string]calls.Result, bool) {
	want := map[string]calls.Result{}
	big := calls.BigIndexPatches(c.Bufs)
	for _, th := range c.Threads {
		for _, st := range th {
			if st.Skips(big) {
				continue
			}
			sig := st.Sig(c.Bufs)
			r, ok := hw[sigKey(sig)]
			if !ok {
				return nil, false
			}
			want[sig] = r
		}
	}
	return want, true
}

func sigKey(sig string) string {
	h := sha256.Sum256([]byte(sig))
	return hex.EncodeToString(h[:])
}

func headOf(s string, n int) string {
	if len(s) > n {
		return s[:n]
	}
	return s
}

// TestColdChild is the child side of a cold start: no library call precedes
// the goroutines except decoding the shared Patch values.
func TestColdChild(t *testing.T) {
	if os.Getenv("VERIF_C10_COLD") == "" {
		t.Skip("helper for cold-start workloads")
	}
	var req coldReq
	if err := json.NewDecoder(os.Stdin).Decode(&req); err != nil {
		t.Fatalf("bad request: %v", err)
	}
	c := req.Case
	api := calls.ByName(c.Pkg)
	bufs := make([]*calls.Buf, len(c.Bufs))
	for i, b := range c.Bufs {
		bufs[i] = calls.NewBuf(b)
	}
	msg := ""
	defer c.setDefaults(api)()
	// first: nothing at all has run in this process; every goroutine decodes and applies on its own
	var shared map[int]*sharedPatch
	var err error
	if w0, ok := wantFrom(c, req.Want); ok {
		for _, e := range concurrentMode(api, c, bufs, nil, w0, true) {
			if e != "" {
				msg = "(first calls of the process, all private) " + e
				break
			}
		}
	}
	if msg != "" {
		b, _ := json.Marshal(msg)
		fmt.Printf("COLD-RESULT %s\n", b)
		return
	}
	shared, err = prepare(api, c, bufs)
	if err != nil {
		msg = err.Error()
	} else {
		want := map[string]calls.Result{}
		bigc := calls.BigIndexPatches(c.Bufs)
		for _, th := range c.Threads {
			for _, st := range th {
				if st.Skips(bigc) {
					continue
				}
				sig := st.Sig(c.Bufs)
				r, ok := req.Want[sigKey(sig)]
				if !ok {
					t.Fatalf("request lacks the expected result of %s", st.Fn)
				}
				want[sig] = r
			}
		}
		for _, e := range concurrent(api, c, bufs, shared, want) {
			if e != "" {
				msg = e
				break
			}
		}
		if msg == "" {
			if err := after(api, bufs, shared); err != nil {
				msg = err.Error()
			} else if err := c.defaultsIntact(api); err != nil {
				msg = err.Error()
			}
		}
	}
	b, _ := json.Marshal(msg)
	fmt.Printf("COLD-RESULT %s\n", b)
}

// ---------- the check ----------

func check(c Case) ev.Verdict {
	if len(c.Bufs) == 0 || len(c.Threads) == 0 {
		return ev.Excluded("empty workload")
	}
	for _, th := range c.Threads {
		for _, st := range th {
			if st.A < 0 || st.A >= len(c.Bufs) || st.B < 0 || st.B >= len(c.Bufs) {
				return ev.Excluded("call refers to a buffer that does not exist")
			}
		}
	}
	if c.Procs < 1 || c.Procs > 64 || c.Rounds < 1 || c.Rounds > 50 {
		return ev.Excluded("GOMAXPROCS or rounds out of range")
	}
	api := calls.ByName(c.Pkg)
	bufs := make([]*calls.Buf, len(c.Bufs))
	for i, b := range c.Bufs {
		bufs[i] = calls.NewBuf(b)
	}
	defer c.setDefaults(api)()
	shared, err := prepare(api, c, bufs)
	if err != nil {
		return ev.Verdict{Err: err}
	}
	want, err := sequential(api, c, bufs, shared)
	if err != nil {
		return ev.Verdict{Err: err}
	}
	repeat := 1
	if os.Getenv("VERIF_REPLAY") != "" {
		repeat = 25 // a saved workload is schedule-dependent: give it more chances
	}
	for i := 0; i < repeat; i++ {
		for _, e := range concurrent(api, c, bufs, shared, want) {
			if e != "" {
				return ev.Verdict{Err: fmt.Errorf("%s", e)}
			}
		}
		if err := after(api, bufs, shared); err != nil {
			return ev.Verdict{Err: err}
		}
		if err := c.defaultsIntact(api); err != nil {
			return ev.Verdict{Err: err}
		}
	}
	if c.Cold {
		if err := runCold(c, want); err != nil {
			if strings.HasPrefix(err.Error(), "INFRA") {
				return ev.Excluded("cold-start child unavailable: " + err.Error())
			}
			return ev.Verdict{Err: err}
		}
	}

	// classification
	sharedUsers := map[int]map[int]bool{} // patch buffer -> goroutines applying the shared Patch
	fnThreads := map[string]map[int]bool{}
	ncalls := 0
	for g, th := range c.Threads {
		for _, st := range th {
			ncalls++
			if fnThreads[st.Fn] == nil {
				fnThreads[st.Fn] = map[int]bool{}
			}
			fnThreads[st.Fn][g] = true
			if st.NeedsPatch() && !st.Private && st.Fn != calls.FAccessors && shared[st.B].err == nil {
				if sharedUsers[st.B] == nil {
					sharedUsers[st.B] = map[int]bool{}
				}
				sharedUsers[st.B][g] = true
			}
		}
	}
	sharedApply := false
	for _, gs := range sharedUsers {
		if len(gs) >= 2 {
			sharedApply = true
		}
	}
	overlap := 0
	for _, gs := range fnThreads {
		if len(gs) >= 2 {
			overlap++
		}
	}
	v := ev.Verdict{NonTrivial: sharedApply && overlap >= 3}
	v.Classes = []string{fmt.Sprintf("goroutines=%d", len(c.Threads)), fmt.Sprintf("gomaxprocs=%d", c.Procs), fmt.Sprintf("rounds=%d", c.Rounds),
		fmt.Sprintf("calls-per-round=%d", 20*(ncalls/20)), fmt.Sprintf("functions-overlapping=%d", overlap)}
	if sharedApply {
		v.Classes = append(v.Classes, "shared-patch-applied-by>=2-goroutines")
	}
	if c.Cold {
		v.Classes = append(v.Classes, "cold-start")
	}
	if c.Defaults != nil {
		v.Classes = append(v.Classes, "package-defaults-assigned-first")
	}
	if c.Kind == "together" {
		// non-trivial: at least six goroutines start with the same call
		same := 0
		for _, th := range c.Threads {
			if len(th) > 0 && th[0].Fn == c.Threads[0][0].Fn && th[0].A == c.Threads[0][0].A && th[0].B == c.Threads[0][0].B {
				same++
			}
		}
		v.NonTrivial = same >= 6
		v.Classes = append(v.Classes, "first-call="+c.Threads[0][0].Fn, fmt.Sprintf("first-call-argument-bytes=%dk", (len(c.Bufs[c.Threads[0][0].A])+len(c.Bufs[c.Threads[0][0].B]))/2048*2))
	}
	return v
}

const rule = "workload = pool of 4-11 shared buffers (as C09) x 2/4/8/16 goroutines, each 2-12 calls drawn mostly from a common list of 3-10 calls (so the same shared Patch value and buffers are in use at the same time), 1 in 6 on private copies, 1 in 4 preceded by a yield, repeated 1-3 rounds behind a start barrier under GOMAXPROCS 1/2/4/16; 1 workload in 12 also runs as a cold start in a fresh process; 1 in 4 assigns the package-level defaults (negative indices on/off, copy limit 0/40/400/-1) before any call, also in the cold-start child, and they must read back unchanged afterwards; one pool in twelve holds a document nested 1 100 / 2 100 levels; race-detector build; non-trivial = one shared Patch value is applied by >=2 goroutines and >=3 different API functions are each called by >=2 goroutines; distinct = distinct serialised workload"

var unitV5 = ev.Unit[Case]{Name: "workload-v5", Rule: rule, Draw: draw("v5"), Check: check, Guard: true}
var unitLegacy = ev.Unit[Case]{Name: "workload-legacy", Rule: rule, Draw: draw("legacy"), Check: check, Guard: true}

const ruleTogether = "workload = 6/8/12/16 goroutines behind a start barrier that all begin with the same long-running call and then make 0-1 more from the same menu, 1-2 rounds, GOMAXPROCS 4/16, 1 call in 3 on private copies that the goroutine writes to again as soon as the call has returned; arguments: objects nested 1 000-3 500 levels (two leaves, one a null, one a level or three shorter; 200-700 levels for the merge functions, which are quadratic in depth), an array nested as deep, texts of 33-180 KiB (well-formed, with a member more, ill-formed near the end, truncated); calls: CreateMergePatch, MergePatch, MergeMergePatches, Apply, ApplyIndent and Equal over them (Equal only on the large texts: it is quadratic in depth); oracle as for the other workloads (race reports, equality with the result of the call run alone, inputs unchanged); non-trivial = at least six goroutines start with the same call; distinct = distinct serialised workload"

var unitTogetherV5 = ev.Unit[Case]{Name: "together-v5", Rule: ruleTogether, Draw: drawTogether("v5"), Check: check, Guard: true}
var unitTogetherLegacy = ev.Unit[Case]{Name: "together-legacy", Rule: ruleTogether, Draw: drawTogether("legacy"), Check: check, Guard: true}

func TestPropTogether(t *testing.T)       { ev.RunProp(t, "C10", unitTogetherV5) }
func TestPropTogetherLegacy(t *testing.T) { ev.RunProp(t, "C10", unitTogetherLegacy) }

func TestProp(t *testing.T)       { ev.RunProp(t, "C10", unitV5) }
func TestPropLegacy(t *testing.T) { ev.RunProp(t, "C10", unitLegacy) }
func TestReplay(t *testing.T) {
	ev.Replay(t, map[string]ev.Replayer{unitV5.Name: unitV5.Replayer(), unitLegacy.Name: unitLegacy.Replayer(),
		unitTogetherV5.Name: unitTogetherV5.Replayer(), unitTogetherLegacy.Name: unitTogetherLegacy.Replayer()})
}
