package c06

import (
	"testing"

	"github.com/evanphx/json-patch/v5/xverif/ev"
)

// FuzzEqual: pairs of byte strings against structural equality (well-formed
// pairs) and against "false" (any ill-formed argument).
func FuzzEqual(f *testing.F) {
	texts := []string{`{"a":[1,null,{"b":"é"}],"c":null}`, `{"c":null,"a":[1,null,{"b":"é"}]}`, `[null]`, `null`, ` null `, `{"a":null}`, `{"b":1}`, `[]`, `{}`, `{`, `1.0`, `1`, `"😀"`, `"😀"`}
	for _, a := range texts {
		for _, b := range texts {
			f.Add([]byte(a), []byte(b))
		}
	}
	f.Fuzz(func(t *testing.T, a, b []byte) {
		ev.FuzzCheck(t, "C06", pairUnit, Case{A: string(a), B: string(b)})
	})
}
