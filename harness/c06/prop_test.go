// C06 — Equal decides structural equality of JSON texts (v5).
package c06

import (
	"fmt"
	"strings"
	"testing"

	jp "github.com/evanphx/json-patch/v5"
	"github.com/evanphx/json-patch/v5/xverif/ev"
	"github.com/evanphx/json-patch/v5/xverif/gen"
	"github.com/evanphx/json-patch/v5/xverif/ref"
	"pgregory.net/rapid"
)

type Case struct {
	A string `json:"a"`
	B string `json:"b"`
	C string `json:"c,omitempty"` // third text for the transitivity unit
}

var respell = gen.SpellCfg{WS: true, Escapes: true, Shuffle: true}

// edit applies one small edit at a random position of a clone of v.
func edit(t *rapid.T, v *ref.V) *ref.V {
	c := gen.WithEmptyName
	out := v.Clone()
	// collect all nodes with parent info
	type slot struct {
		parent *ref.V
		idx    int
	}
	var slots []slot
	out.Walk(func(x *ref.V) {
		for i := range x.Arr {
			slots = append(slots, slot{x, i})
		}
		for i := range x.Vals {
			slots = append(slots, slot{x, i})
		}
	})
	set := func(s slot, nv *ref.V) {
		if s.parent.K == ref.KArr {
			s.parent.Arr[s.idx] = nv
		} else {
			s.parent.Vals[s.idx] = nv
		}
	}
	get := func(s slot) *ref.V {
		if s.parent.K == ref.KArr {
			return s.parent.Arr[s.idx]
		}
		return s.parent.Vals[s.idx]
	}
	if len(slots) == 0 && v.K == ref.KNum && rapid.Bool().Draw(t, "rootnum") {
		return ref.Num(gen.Neighbour(t, v.Num, "rnb"))
	}
	if len(slots) == 0 {
		// scalar or empty container at the root: swap for a near value
		return rapid.SampledFrom([]*ref.V{ref.Null(), ref.Obj(), ref.Arr(), ref.Bool(false), ref.Num("0"), ref.Str(""), ref.Arr(ref.Null()), ref.ObjOf("a", ref.Null())}).Draw(t, "rootswap")
	}
	s := slots[rapid.IntRange(0, len(slots)-1).Draw(t, "slot")]
	switch gen.Uniform(t, 0, 6, "ek") {
	case 0: // change the value
		set(s, c.Value(1).Draw(t, "nv"))
	case 1: // null <-> absent / null <-> empty containers
		cur := get(s)
		if cur.K == ref.KNull && s.parent.K == ref.KObj {
			s.parent.Del(s.parent.Keys[s.idx])
		} else if cur.K == ref.KNull {
			set(s, rapid.SampledFrom([]*ref.V{ref.Obj(), ref.Arr(), ref.Bool(false), ref.Num("0"), ref.Str("")}).Draw(t, "nn"))
		} else {
			set(s, ref.Null())
		}
	case 2: // {} <-> [] <-> null
		set(s, rapid.SampledFrom([]*ref.V{ref.Obj(), ref.Arr(), ref.Null(), ref.Arr(ref.Null()), ref.ObjOf("a", ref.Null())}).Draw(t, "ec"))
	case 3: // remove the member / element
		if s.parent.K == ref.KObj {
			s.parent.Del(s.parent.Keys[s.idx])
		} else {
			s.parent.Arr = append(append([]*ref.V{}, s.parent.Arr[:s.idx]...), s.parent.Arr[s.idx+1:]...)
		}
	case 4: // add a member / element
		if s.parent.K == ref.KObj {
			s.parent.Set("zz", c.Scalar().Draw(t, "am"))
		} else {
			s.parent.Arr = append(s.parent.Arr, c.Scalar().Draw(t, "ae"))
		}
	case 5: // rename a member / reorder elements
		if s.parent.K == ref.KObj {
			s.parent.Keys[s.idx] = s.parent.Keys[s.idx] + "x"
		} else if len(s.parent.Arr) >= 2 {
			j := (s.idx + 1) % len(s.parent.Arr)
			s.parent.Arr[s.idx], s.parent.Arr[j] = s.parent.Arr[j], s.parent.Arr[s.idx]
		}
	case 6: // change a string by case / a bool
		cur := get(s)
		switch cur.K {
		case ref.KStr:
			set(s, ref.Str(cur.Str+" "))
		case ref.KBool:
			set(s, ref.Bool(!cur.B))
		case ref.KNum:
			// a different number that float64 (or a tolerance) cannot tell apart from this one
			set(s, ref.Num(gen.Neighbour(t, cur.Num, "nb")))
		default:
			set(s, ref.Str("1"))
		}
	}
	if out.HasDup() {
		return v.Clone()
	}
	return out
}

func drawValue(t *rapid.T) *ref.V {
	if gen.OneIn(t, 3000, "deepwrap") {
		// an ordinary value far down (1 100 levels, inside the codec's limit of 10 000; each such case costs ~0.5 s):
		// equality must be structural at every depth
		v := gen.WithEmptyName.Object(2).Draw(t, "dv")
		n := 1100
		for i := 0; i < n; i++ {
			if i%2 == 0 {
				v = ref.Arr(v)
			} else {
				v = ref.ObjOf("n", v)
			}
		}
		return v
	}
	if gen.OneIn(t, 8, "special") {
		return rapid.SampledFrom([]*ref.V{ref.Null(), ref.Arr(ref.Null()), ref.Arr(ref.Null(), ref.Null()), ref.ObjOf("a", ref.Null()), ref.Arr(ref.Arr(ref.Null())), ref.Obj(), ref.Arr()}).Draw(t, "sp")
	}
	return gen.WithEmptyName.Value(3).Draw(t, "a")
}

func drawPair(t *rapid.T) Case {
	a := drawValue(t)
	var b *ref.V
	kind := gen.Uniform(t, 0, 10, "pk")
	if kind == 10 {
		return drawNumberPair(t)
	}
	switch {
	case kind <= 3:
		b = a.Clone()
	case kind <= 7:
		b = edit(t, a)
	default:
		b = drawValue(t)
	}
	return Case{A: gen.SpellWith(t, a, respell, "sa"), B: gen.SpellWith(t, b, respell, "sb")}
}

// drawNumberPair: two texts that differ in one number only, and there only in the
// exponent or the last place of the fraction - literals with both a fraction and an
// exponent, with zeros at the end of either. Different values, so never equal.
func drawNumberPair(t *rapid.T) Case {
	sign := rapid.SampledFrom([]string{"", "", "-"}).Draw(t, "nsign")
	ip := rapid.SampledFrom([]string{"1", "2", "10", "15", "100", "7", "0"}).Draw(t, "nint")
	fr := rapid.SampledFrom([]string{"", ".5", ".50", ".05", ".25", ".100", ".0", ".00"}).Draw(t, "nfrac")
	if ip == "0" && (fr == "" || fr == ".0" || fr == ".00") {
		fr = ".5" // the value must not be zero: zero times any power of ten is zero
	}
	e := rapid.SampledFrom([]string{"e", "E", "e+", "e-", "E-"}).Draw(t, "ne")
	ex := rapid.SampledFrom([]string{"1", "2", "10", "3", "20", "01"}).Draw(t, "nexp")
	la := sign + ip + fr + e + ex
	var lb string
	switch gen.Uniform(t, 0, 4, "nk") {
	case 0:
		lb = sign + ip + fr + e + ex + "0" // e1 -> e10
	case 1:
		lb = sign + ip + fr + e + strings.TrimSuffix(ex, "0") + "1"
	case 2:
		if strings.Contains(e, "-") {
			lb = sign + ip + fr + "e" + ex
		} else {
			lb = sign + ip + fr + "e-" + ex
		}
	case 3:
		if fr == "" {
			lb = sign + ip + ".5" + e + ex
		} else {
			lb = sign + ip + fr + "5" + e + ex
		}
	default:
		lb = sign + ip + "0" + fr + e + ex
		if ip == "0" {
			lb = sign + "1" + fr + e + ex
		}
	}
	w := gen.Uniform(t, 0, 2, "nwrapk")
	mk := func(l string) string {
		switch w {
		case 0:
			return l
		case 1:
			return "[1," + l + "]"
		}
		return `{"a":[` + l + `],"b":null}`
	}
	if rapid.Bool().Draw(t, "nswap") {
		la, lb = lb, la
	}
	return Case{A: mk(la), B: mk(lb)}
}

func drawTriple(t *rapid.T) Case {
	a := drawValue(t)
	b, c := a.Clone(), a.Clone()
	if gen.OneIn(t, 4, "eb") {
		b = edit(t, a)
	}
	if gen.OneIn(t, 4, "ec") {
		c = edit(t, b)
	}
	return Case{A: gen.SpellWith(t, a, respell, "sa"), B: gen.SpellWith(t, b, respell, "sb"), C: gen.SpellWith(t, c, respell, "sc")}
}

var alphabet = []byte("{}[],:\"\\-+.01eEtrufalsn \n/\x00\x80b")

// lenient: what tolerant readers skip or accept around a JSON text. RFC 8259 allows none of it.
var lenientPre = []string{"\xef\xbb\xbf", "\xff\xfe", "\xfe\xff", "\x00", "\x0c", "\x0b", "\xc2\xa0", "\xe2\x80\xa8", "//c\n", "/**/", "\x1e", ")]}'\n", "#\n"}
var lenientPost = []string{"\xef\xbb\xbf", "\x00", "\x0c", "\xc2\xa0", "//c", "/**/", ",", ";", "\x1a", "\n\x00"}

func drawMalformed(t *rapid.T) Case {
	if gen.OneIn(t, 4, "lenient") {
		good := gen.WithEmptyName.Value(2).Draw(t, "lgood").Text(false)
		a := good
		if rapid.Bool().Draw(t, "lpre") {
			a = rapid.SampledFrom(lenientPre).Draw(t, "lp") + good
		} else {
			a = good + rapid.SampledFrom(lenientPost).Draw(t, "ls")
		}
		b := good
		if rapid.Bool().Draw(t, "lsame") {
			b = a
		}
		if rapid.Bool().Draw(t, "lswap") {
			a, b = b, a
		}
		return Case{A: a, B: b}
	}
	g := rapid.OneOf(
		rapid.SliceOfN(rapid.SampledFrom(alphabet), 0, 12),
		rapid.SliceOfN(rapid.Byte(), 0, 12),
		rapid.Custom(func(t *rapid.T) []byte {
			b := []byte(gen.WithEmptyName.Value(3).Draw(t, "v").Text(false))
			if len(b) == 0 {
				return b
			}
			i := rapid.IntRange(0, len(b)-1).Draw(t, "i")
			switch gen.Uniform(t, 0, 3, "m") {
			case 0:
				b = b[:i]
			case 1:
				b[i] = rapid.SampledFrom(alphabet).Draw(t, "c")
			case 2:
				b = append(b[:i:i], b[i+1:]...)
			case 3:
				b = append(b, rapid.SampledFrom([]string{"x", "]", "}", ",", " 1", "\"", "\x00"}).Draw(t, "tr")...)
			}
			return b
		}),
	)
	a := g.Draw(t, "a")
	var b []byte
	if rapid.Bool().Draw(t, "same") {
		b = append([]byte{}, a...)
	} else {
		b = []byte(gen.WithEmptyName.Value(2).Draw(t, "good").Text(false))
	}
	if rapid.Bool().Draw(t, "swap") {
		a, b = b, a
	}
	return Case{A: string(a), B: string(b)}
}

func equal(a, b string) (r bool, p error) {
	p = ev.Safe(func() { r = jp.Equal([]byte(a), []byte(b)) })
	return
}

// judged reports whether the pair is inside the stated domain.
func outOfDomain(a, b *ref.V, ia, ib ref.Info) string {
	switch {
	case a.HasDup() || b.HasDup():
		return "duplicate member names"
	case ia.LoneSurrogate || ib.LoneSurrogate || ia.BadUTF8 || ib.BadUTF8:
		return "lone surrogate escape or invalid UTF-8 (undefined)"
	case ref.NumSpellingIssue(a, b):
		return "numbers equal in value but spelled differently"
	}
	return ""
}

func checkPair(c Case) ev.Verdict {
	a, ia, e1 := ref.ParseInfo([]byte(c.A))
	b, ib, e2 := ref.ParseInfo([]byte(c.B))
	if e1 != nil || e2 != nil {
		got, p := equal(c.A, c.B)
		if p != nil {
			return ev.Verdict{Err: p}
		}
		v := ev.Verdict{Classes: []string{"malformed"}, NonTrivial: len(c.A) >= 2 && len(c.B) >= 2}
		if got {
			v.Err = fmt.Errorf("Equal returned true although an argument is not well-formed JSON")
		}
		return v
	}
	if why := outOfDomain(a, b, ia, ib); why != "" {
		return ev.Excluded(why)
	}
	want := ref.Equal(a, b)
	got, p := equal(c.A, c.B)
	if p != nil {
		return ev.Verdict{Err: p}
	}
	v := ev.Verdict{Classes: []string{fmt.Sprintf("equal=%v", want)}}
	v.NonTrivial = (want && c.A != c.B) || !want
	if want && c.A != c.B {
		v.Classes = append(v.Classes, "equal-but-respelled")
	}
	if got != want {
		v.Err = fmt.Errorf("Equal = %v but the texts are structurally equal = %v", got, want)
		return v
	}
	// symmetry and reflexivity
	if rev, p := equal(c.B, c.A); p != nil {
		return ev.Verdict{Err: p}
	} else if rev != got {
		v.Err = fmt.Errorf("Equal(a,b) = %v but Equal(b,a) = %v", got, rev)
		return v
	}
	for _, x := range []string{c.A, c.B} {
		if r, p := equal(x, x); p != nil {
			return ev.Verdict{Err: p}
		} else if !r {
			v.Err = fmt.Errorf("Equal(x,x) = false for the well-formed text %q", x)
			return v
		}
	}
	return v
}

func checkTriple(c Case) ev.Verdict {
	var vs [3]*ref.V
	for i, s := range []string{c.A, c.B, c.C} {
		v, info, err := ref.ParseInfo([]byte(s))
		if err != nil || v.HasDup() || info.LoneSurrogate || info.BadUTF8 {
			return ev.Excluded("not three well-formed, duplicate-free texts")
		}
		vs[i] = v
	}
	if ref.NumSpellingIssue(vs[0], vs[1]) || ref.NumSpellingIssue(vs[1], vs[2]) || ref.NumSpellingIssue(vs[0], vs[2]) {
		return ev.Excluded("numbers equal in value but spelled differently")
	}
	ab, p1 := equal(c.A, c.B)
	bc, p2 := equal(c.B, c.C)
	ac, p3 := equal(c.A, c.C)
	for _, p := range []error{p1, p2, p3} {
		if p != nil {
			return ev.Verdict{Err: p}
		}
	}
	v := ev.Verdict{Classes: []string{fmt.Sprintf("ab=%v,bc=%v", ab, bc)}, NonTrivial: ab && bc && c.A != c.B && c.B != c.C}
	if ab && bc && !ac {
		v.Err = fmt.Errorf("Equal(a,b) and Equal(b,c) but not Equal(a,c)")
	}
	if ab != ref.Equal(vs[0], vs[1]) || bc != ref.Equal(vs[1], vs[2]) || ac != ref.Equal(vs[0], vs[2]) {
		v.Err = fmt.Errorf("Equal disagrees with structural equality: ab=%v bc=%v ac=%v", ab, bc, ac)
	}
	return v
}

var (
	pairUnit = ev.Unit[Case]{Name: "pairs", Draw: drawPair, Check: checkPair,
		Rule: "a = generated value (null roots, nulls in arrays and as members included; one in 3 000 is an object wrapped 1 100 levels deep); b = clone of a, or a with one small edit (value changed, null<->absent, {}<->[]<->null, member/element removed, added, renamed, elements swapped), or independent; both re-serialised with members shuffled, random whitespace and alternative escapes; oracle: structural equality on the independent tree, plus symmetry and reflexivity; non-trivial = equal but not byte-identical, or unequal"}
	tripleUnit = ev.Unit[Case]{Name: "triples", Draw: drawTriple, Check: checkTriple,
		Rule: "triples of re-spelled clones with occasional single edits; oracle: transitivity and agreement with structural equality on all three pairs; non-trivial = a~b and b~c with three distinct spellings"}
	malUnit = ev.Unit[Case]{Name: "malformed", Draw: drawMalformed, Check: checkPair,
		Rule: "one argument from byte strings over the JSON alphabet, arbitrary bytes or a valid text with a truncation/flip/deletion/trailing data; the other equal to it or a valid text; oracle: false whenever an argument is not RFC 8259 (well-formed pairs fall through to the pair oracle); non-trivial = both arguments at least 2 bytes"}
)

func TestProp(t *testing.T)          { ev.RunProp(t, "C06", pairUnit) }
func TestPropTriple(t *testing.T)    { ev.RunProp(t, "C06", tripleUnit) }
func TestPropMalformed(t *testing.T) { ev.RunProp(t, "C06", malUnit) }
func TestReplay(t *testing.T) {
	ev.Replay(t, map[string]ev.Replayer{pairUnit.Name: pairUnit.Replayer(), tripleUnit.Name: tripleUnit.Replayer(), malUnit.Name: malUnit.Replayer()})
}
