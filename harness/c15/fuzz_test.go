package c15

import (
	"testing"

	"github.com/evanphx/json-patch/v5/xverif/ev"
)

// FuzzWellFormed: (a, b, patch, escape, indent) - every successful output of
// the five functions must be one RFC 8259 text in valid UTF-8 denoting the reference value.
func FuzzWellFormed(f *testing.F) {
	for _, a := range []string{`{"<k>":"a&b","x y":["😀"," "],"q\"k":{"k\\":null}}`, `["<",{"&":">"}]`, `{"a":"\ud800"}`, `{}`} {
		for _, b := range []string{`{"<k>":null,"n":{" ":1.0}}`, `["&"]`, `{"a":{"b":"\udc00x"}}`} {
			f.Add([]byte(a), []byte(b), []byte(`[{"op":"add","path":"/z<","value":"</script>"},{"op":"copy","from":"/z<","path":"/w"}]`), true, uint8(1))
			f.Add([]byte(a), []byte(b), []byte(`[]`), false, uint8(0))
		}
	}
	f.Fuzz(func(t *testing.T, a, b, patch []byte, esc bool, ind uint8) {
		ev.FuzzCheck(t, "C15", wfUnit, WFCase{A: string(a), B: string(b), Patch: string(patch), Esc: esc, Ind: []string{"", " ", "\t"}[ind%3]})
	})
}
