// C15 — outputs are well-formed JSON; escaping and indentation never change the value.
package c15

import (
	"bytes"
	stdjson "encoding/json"
	"fmt"
	"os"
	"regexp"
	"strings"
	"testing"
	"unicode/utf8"

	jp "github.com/evanphx/json-patch/v5"
	"github.com/evanphx/json-patch/v5/xverif/ev"
	"github.com/evanphx/json-patch/v5/xverif/gen"
	"github.com/evanphx/json-patch/v5/xverif/lib"
	"github.com/evanphx/json-patch/v5/xverif/ref"
	"pgregory.net/rapid"
)

var htmlEsc = regexp.MustCompile(`(?i)\\u(003c|003e|0026)`)

// Strings with the five characters in names and values.
var htmlCfg = gen.Cfg{
	Keys:  []string{"a", "b", "<k>", "a&b", "x\u2028y", "q\"k", "é", "c", "d>", "\u2029", "k\\", "😀k", "0", "x/y"},
	Nums:  []string{"0", "1", "-1", "1.0", "1e2", "12345678901234567890123", "-0"},
	Strs:  []string{"", "a", "<x>", "a&b", "</script>", "l\u2028s", "p\u2029s", "q\"uote", "back\\slash", "line\nfeed", "tab\t", "\u0001", "😀", "é", "&amp;", "<", ">"},
	Width: 4, Depth: 3,
}

func hasFive(s string) bool {
	return strings.ContainsAny(s, "<>&\u2028\u2029")
}

// ---------- Apply: escaping, indentation, passing tests ----------

type ApplyCase struct {
	Doc        string `json:"doc"`         // canonical spelling for EscapeHTML off
	Patch      string `json:"patch"`       // applicable operations, same spelling
	PatchTests string `json:"patch_tests"` // the same operations with passing tests inserted
	Indent     string `json:"indent"`
	// Ensure: every call carries EnsurePathExistsOnAdd, and some adds name parents that do not exist yet
	Ensure bool `json:"ensure_path_exists_on_add,omitempty"`
}

// ensureAdd draws an add below an object of the current state whose last 1-3
// reference tokens name members that (mostly) do not exist yet.
func ensureAdd(t *rapid.T, root *ref.V) (ref.Op, bool) {
	var objs []string
	if root.K == ref.KObj {
		objs = append(objs, "")
	}
	for _, l := range gen.Locations(root) {
		if l.V.K == ref.KObj {
			objs = append(objs, l.Ptr)
		}
	}
	if len(objs) == 0 {
		return ref.Op{}, false
	}
	p := rapid.SampledFrom(objs).Draw(t, "eobj")
	n := gen.Uniform(t, 1, 3, "etoks")
	for i := 0; i < n; i++ {
		p += "/" + ref.EncodeTok(rapid.SampledFrom(htmlCfg.Keys).Draw(t, "ekey"))
	}
	return ref.Op{Op: "add", Path: p, Value: htmlCfg.Value(1).Draw(t, "eval")}, true
}

func drawApply(t *rapid.T) ApplyCase {
	doc := htmlCfg.Root().Draw(t, "doc")
	g := gen.NewOpGen(true)
	g.Cfg = htmlCfg
	g.NearMiss, g.TestMismatch = 0, 0
	ensure := gen.OneIn(t, 4, "ensure")
	ro := ref.Opts{Neg: true, Ensure: ensure}
	st := &ref.State{Root: doc.Clone()}
	var ops, ops2 []ref.Op
	n := gen.Uniform(t, 0, 6, "nops")
	for i := 0; i < n; i++ {
		if rapid.Bool().Draw(t, "ins") {
			ls := gen.Locations(st.Root)
			p := ""
			if len(ls) > 0 && !gen.OneIn(t, 5, "roottest") {
				p = ls[rapid.IntRange(0, len(ls)-1).Draw(t, "tl")].Ptr
			}
			if v, r := ref.Lookup(st.Root, p, ro); r.Cause == ref.COK {
				ops2 = append(ops2, ref.Op{Op: "test", Path: p, Value: v.Clone()})
			}
		}
		op := g.Next(t, st.Root, i)
		if ensure && rapid.Bool().Draw(t, "eadd") {
			if e, ok := ensureAdd(t, st.Root); ok {
				op = e
			}
		}
		trial := &ref.State{Root: st.Root.Clone()}
		if r := ref.Step(trial, op, ro); r.Cause != ref.COK {
			continue
		}
		st = trial
		ops = append(ops, op)
		ops2 = append(ops2, op)
	}
	if rapid.Bool().Draw(t, "final") {
		ls := gen.Locations(st.Root)
		if len(ls) > 0 {
			l := ls[rapid.IntRange(0, len(ls)-1).Draw(t, "fl")]
			ops2 = append(ops2, ref.Op{Op: "test", Path: l.Ptr, Value: l.V.Clone()})
		}
	}
	ind := rapid.SampledFrom([]string{" ", "  ", "\t", " \t", "    "}).Draw(t, "indent")
	return ApplyCase{Doc: doc.Text(false), Patch: ref.OpsText(ops, false), PatchTests: ref.OpsText(ops2, false), Indent: ind, Ensure: ensure}
}

func checkOutput(name string, out []byte, want *ref.V) error {
	if !utf8.Valid(out) {
		return fmt.Errorf("%s: output is not valid UTF-8: %q", name, out)
	}
	g, err := ref.Parse(out)
	if err != nil {
		return fmt.Errorf("%s: output is not one well-formed RFC 8259 text: %q: %v", name, out, err)
	}
	if want != nil && !ref.Equal(g, want) {
		return fmt.Errorf("%s: output does not read back as the intended value\n got:  %s\n want: %s", name, out, want)
	}
	return nil
}

func checkApply(c ApplyCase) ev.Verdict {
	doc, ops, why := lib.ParseCase(c.Doc, c.Patch)
	if why != "" {
		return ev.Excluded(why)
	}
	_, ops2, why := lib.ParseCase(c.Doc, c.PatchTests)
	if why != "" {
		return ev.Excluded(why)
	}
	if doc.Text(false) != c.Doc || ref.OpsText(ops, false) != c.Patch || ref.OpsText(ops2, false) != c.PatchTests {
		return ev.Excluded("spelling other than the encoder's own")
	}
	if strings.Trim(c.Indent, " \t") != "" || c.Indent == "" {
		return ev.Excluded("indent is not a non-empty string of spaces/tabs")
	}
	// ops2 must be ops plus passing tests
	var stripped []ref.Op
	ntests := 0
	for _, op := range ops2 {
		if op.Op == "test" {
			ntests++
		}
	}
	{
		i := 0
		for _, op := range ops2 {
			if i < len(ops) && ref.OpsText([]ref.Op{op}, false) == ref.OpsText([]ref.Op{ops[i]}, false) {
				stripped = append(stripped, op)
				i++
			} else if op.Op != "test" {
				return ev.Excluded("patch_tests is not patch plus test operations")
			}
		}
		if i != len(ops) {
			return ev.Excluded("patch_tests is not patch plus test operations")
		}
	}
	if c.Ensure {
		for _, op := range ops2 {
			if lib.BigIndex(op.Path) {
				return ev.Excluded("array index above 10^4 under EnsurePathExistsOnAdd (quadratic padding; outside C04's stated domain)")
			}
		}
	}
	ro := ref.Opts{Neg: true, Ensure: c.Ensure}
	want := ref.Apply(doc, ops, ro)
	want2 := ref.Apply(doc, ops2, ro)
	if want.OutOfDomain() || want2.OutOfDomain() || !want.OK() || !want2.OK() {
		return ev.Excluded("an operation is inapplicable, a test fails or the case is out of C01's domain")
	}
	// non-trivial: one of the five characters in a name and in a value of the output; for the
	// test clause an inserted test addresses an object containing such a name
	nameHit, valHit := false, false
	want.Doc.Walk(func(x *ref.V) {
		if x.K == ref.KStr && hasFive(x.Str) {
			valHit = true
		}
		for _, k := range x.Keys {
			if hasFive(k) {
				nameHit = true
			}
		}
	})
	testHit := false
	for _, op := range ops2 {
		if op.Op == "test" && op.Value != nil && op.Value.K == ref.KObj {
			for _, k := range op.Value.Keys {
				if hasFive(k) {
					testHit = true
				}
			}
		}
	}
	v := ev.Verdict{Classes: []string{fmt.Sprintf("tests=%d", min(ntests, 4)), fmt.Sprintf("ensure=%v", c.Ensure)}}
	if nameHit && valHit {
		v.Classes = append(v.Classes, "five-in-name-and-value")
	}
	if testHit {
		v.Classes = append(v.Classes, "test-on-object-with-html-name")
	}
	v.NonTrivial = nameHit && valHit

	outs := map[bool][]byte{}
	for _, esc := range []bool{true, false} {
		o := lib.Options{Neg: true, Esc: esc, Ensure: c.Ensure}
		r := lib.Apply(doc.Text(esc), ref.OpsText(ops, esc), o)
		if r.Panic != nil {
			return ev.Verdict{Err: r.Panic}
		}
		if r.DecodeErr != nil || r.Err != nil {
			v.Err = fmt.Errorf("EscapeHTML=%v: applicable patch failed: %v", esc, r)
			return v
		}
		if err := checkOutput(fmt.Sprintf("Apply(EscapeHTML=%v)", esc), r.Out, want.Doc); err != nil {
			v.Err = err
			return v
		}
		outs[esc] = r.Out
		// (6) passing tests leave the bytes identical
		r2 := lib.Apply(doc.Text(esc), ref.OpsText(ops2, esc), o)
		if r2.Panic != nil {
			return ev.Verdict{Err: r2.Panic}
		}
		if r2.DecodeErr != nil || r2.Err != nil {
			v.Err = fmt.Errorf("EscapeHTML=%v: patch with passing tests failed: %v", esc, r2)
			return v
		}
		if !bytes.Equal(r2.Out, r.Out) {
			v.Err = fmt.Errorf("EscapeHTML=%v: passing test operations changed the output bytes\n without: %s\n with:    %s", esc, r.Out, r2.Out)
			return v
		}
	}
	// (2) on: none of the five appears unescaped
	if bytes.ContainsAny(outs[true], "<>&") || bytes.Contains(outs[true], []byte("\u2028")) || bytes.Contains(outs[true], []byte("\u2029")) {
		v.Err = fmt.Errorf("EscapeHTML on but the output holds an unescaped <, >, &, U+2028 or U+2029: %s", outs[true])
		return v
	}
	// (2b) the same with U+2028/U+2029 (and, for the patch, <, >, &) arriving raw in the input: with
	// escaping on they must still leave escaped, and the value must be the same
	{
		rawify := func(s string) string {
			return strings.NewReplacer(`\u2028`, "\u2028", `\u2029`, "\u2029").Replace(s)
		}
		rd, rp := rawify(doc.Text(true)), rawify(ref.OpsText(ops, false))
		if rd != doc.Text(true) || rp != ref.OpsText(ops, true) {
			r := lib.Apply(rd, rp, lib.Options{Neg: true, Esc: true, Ensure: c.Ensure})
			if r.Panic != nil {
				return ev.Verdict{Err: r.Panic}
			}
			if r.DecodeErr != nil || r.Err != nil {
				v.Err = fmt.Errorf("EscapeHTML on, raw separators in the input: applicable patch failed: %v", r)
				return v
			}
			if err := checkOutput("Apply(EscapeHTML=true, raw input)", r.Out, want.Doc); err != nil {
				v.Err = err
				return v
			}
			if bytes.ContainsAny(r.Out, "<>&") || bytes.Contains(r.Out, []byte("\u2028")) || bytes.Contains(r.Out, []byte("\u2029")) {
				v.Err = fmt.Errorf("EscapeHTML on but the output holds an unescaped <, >, &, U+2028 or U+2029 (they arrived raw in the input): %q", r.Out)
				return v
			}
			v.Classes = append(v.Classes, "raw-separators-in-input")
		}
	}
	// (3) off: no such escapes introduced (the inputs hold none)
	if htmlEsc.Match(outs[false]) {
		v.Err = fmt.Errorf("EscapeHTML off but applying the patch introduced an HTML escape: %s", outs[false])
		return v
	}
	// (4) the two outputs denote the same ordered value
	a, _ := ref.Parse(outs[true])
	b, _ := ref.Parse(outs[false])
	if !ref.EqualOrdered(a, b) {
		v.Err = fmt.Errorf("the EscapeHTML setting changed more than spelling:\n on:  %s\n off: %s", outs[true], outs[false])
		return v
	}
	// (5) ApplyIndent = Apply re-indented, under either EscapeHTML setting (ApplyIndent itself uses the
	// defaults, i.e. on; ApplyIndentWithOptions must relate to ApplyWithOptions in the same way)
	for _, esc := range []bool{true, false} {
		ri := lib.Apply(doc.Text(esc), ref.OpsText(ops, esc), lib.Options{Neg: true, Esc: esc, Indent: c.Indent, Ensure: c.Ensure})
		if ri.Panic != nil {
			return ev.Verdict{Err: ri.Panic}
		}
		if ri.Err != nil {
			v.Err = fmt.Errorf("ApplyIndent (EscapeHTML=%v) failed: %v", esc, ri.Err)
			return v
		}
		var buf bytes.Buffer
		if err := stdjson.Indent(&buf, outs[esc], "", c.Indent); err != nil {
			v.Err = fmt.Errorf("standard library cannot indent Apply's output: %v", err)
			return v
		}
		if !bytes.Equal(ri.Out, buf.Bytes()) || !bytes.Equal(ri.Out, ref.Indent(outs[esc], c.Indent)) {
			v.Err = fmt.Errorf("ApplyIndent (EscapeHTML=%v) is not Apply's output re-indented with %q:\n got:  %q\n want: %q", esc, c.Indent, ri.Out, buf.Bytes())
			return v
		}
		{
			// insignificant whitespace around and inside the input document is none of the output's business
			padded := " \n" + strings.ReplaceAll(doc.Text(esc), ",", ",\n ") + "\r\n\n"
			if d2, err := ref.Parse([]byte(padded)); err == nil && ref.EqualOrdered(d2, doc) {
				rp := lib.Apply(padded, ref.OpsText(ops, esc), lib.Options{Neg: true, Esc: esc, Indent: c.Indent, Ensure: c.Ensure})
				if rp.Panic != nil {
					return ev.Verdict{Err: rp.Panic}
				}
				if rp.Err != nil || !bytes.Equal(rp.Out, ri.Out) {
					v.Err = fmt.Errorf("ApplyIndent (EscapeHTML=%v) of the same document with insignificant whitespace around and inside it differs:\n padded: %q %v\n plain:  %q", esc, rp.Out, rp.Err, ri.Out)
					return v
				}
			}
		}
		if esc && !c.Ensure {
			// the default-options entry point must agree with the explicit one
			var out []byte
			var err error
			if pn := ev.Safe(func() {
				p, e := jp.DecodePatch([]byte(ref.OpsText(ops, true)))
				if e != nil {
					err = e
					return
				}
				out, err = p.ApplyIndent([]byte(doc.Text(true)), c.Indent)
			}); pn != nil {
				return ev.Verdict{Err: pn}
			}
			if err != nil || !bytes.Equal(out, ri.Out) {
				v.Err = fmt.Errorf("Patch.ApplyIndent differs from ApplyIndentWithOptions with default options: %q %v vs %q", out, err, ri.Out)
				return v
			}
		}
	}
	return v
}

var applyUnit = ev.Unit[ApplyCase]{
	Name: "apply-escaping",
	Rule: "documents and patches in the encoder's own spelling whose names and strings hold <, >, &, U+2028/9, quotes, backslashes, control and non-BMP characters x 0-6 applicable operations x the same patch with passing test operations inserted (any location incl. the root) x indent of spaces/tabs x (1 case in 4) EnsurePathExistsOnAdd with adds below 1-3 missing members; oracle: strict RFC 8259 recogniser + UTF-8 + value = reference result for both EscapeHTML settings; on => none of the five characters unescaped; off => no \\u003c/\\u003e/\\u0026 escape in the output; both outputs EqualOrdered; ApplyIndent / ApplyIndentWithOptions = encoding/json.Indent and an independent re-indenter of Apply's / ApplyWithOptions' bytes under both settings; passing tests leave the bytes identical (both settings); non-trivial = the result has one of the five characters in a member name and in a string value",
	Draw: drawApply, Check: checkApply,
}

// ---------- all five functions: well-formed, UTF-8, value, hostile strings ----------

type WFCase struct {
	A string `json:"a"`
	B string `json:"b"`
	// Patch: RFC 6902 patch applied to A (may be inapplicable).
	Patch string `json:"patch"`
	Esc   bool   `json:"escape_html"`
	Ind   string `json:"indent"`
}

var loneStrs = []string{`"\ud800"`, `"a\udc00b"`, `"\ud83d"`, `"\uD800\u0041"`, `"\ud83d\ude00"`, `"\u0000"`, `"\u001f"`, `"\/"`, `"\u003c"`, `"\u2028"`, `"\b\f"`}

func drawWF(t *rapid.T) WFCase {
	a := htmlCfg.Root().Draw(t, "a")
	var b *ref.V
	if rapid.Bool().Draw(t, "mut") {
		b = htmlCfg.Mutate(t, a, 2)
	} else {
		b = htmlCfg.Value(3).Draw(t, "b")
	}
	at, bt := gen.Spell(t, a, "sa"), gen.Spell(t, b, "sb")
	// splice a hostile string literal into one of the texts
	if gen.OneIn(t, 3, "lone") {
		lit := rapid.SampledFrom(loneStrs).Draw(t, "lit")
		if i := strings.Index(at, `"a"`); i >= 0 && rapid.Bool().Draw(t, "ina") {
			at = at[:i] + lit + at[i+3:]
		} else if i := strings.Index(bt, `"a"`); i >= 0 {
			bt = bt[:i] + lit + bt[i+3:]
		}
	}
	g := gen.NewOpGen(true).Calm()
	g.Cfg = htmlCfg
	ops := g.Seq(t, a, ref.Opts{Neg: true}, 0, 5, 0)
	return WFCase{A: at, B: bt, Patch: gen.Spell(t, ref.OpsTree(ops), "sp"), Esc: rapid.Bool().Draw(t, "esc"),
		Ind: rapid.SampledFrom([]string{"", "", " ", "\t"}).Draw(t, "ind")}
}

func checkWF(c WFCase) ev.Verdict {
	if !utf8.ValidString(c.A) || !utf8.ValidString(c.B) || !utf8.ValidString(c.Patch) {
		return ev.Excluded("input not UTF-8")
	}
	a, ia, err1 := ref.ParseInfo([]byte(c.A))
	b, ib, err2 := ref.ParseInfo([]byte(c.B))
	if err1 != nil || err2 != nil {
		return ev.Excluded("inputs not well-formed")
	}
	if a.HasDup() || b.HasDup() {
		return ev.Excluded("duplicate member names")
	}
	lone := ia.LoneSurrogate || ib.LoneSurrogate
	v := ev.Verdict{}
	n := 0
	ran := func(name string) { v.Classes = append(v.Classes, name); n++ }
	var out []byte
	var err error
	// Apply
	if a.IsContainer() {
		if _, ops, why := lib.ParseCase(c.A, c.Patch); why == "" {
			r := lib.Apply(c.A, c.Patch, lib.Options{Neg: true, Esc: c.Esc, Indent: c.Ind})
			if r.Panic != nil {
				return ev.Verdict{Err: r.Panic}
			}
			if r.DecodeErr == nil && r.Err == nil {
				ran("Apply-ok")
				var want *ref.V
				if w := ref.Apply(a, ops, ref.Opts{Neg: true}); w.OK() {
					want = w.Doc
				}
				if err := checkOutput("Apply", r.Out, want); err != nil {
					v.Err = err
					return v
				}
			}
		}
	}
	// MergePatch
	if a.K != ref.KNull {
		if p := ev.Safe(func() { out, err = jp.MergePatch([]byte(c.A), []byte(c.B)) }); p != nil {
			return ev.Verdict{Err: p}
		}
		if err == nil {
			ran("MergePatch-ok")
			if e := checkOutput("MergePatch", out, ref.Merge(a, b)); e != nil {
				v.Err = e
				return v
			}
		}
	}
	// MergeMergePatches
	if p := ev.Safe(func() { out, err = jp.MergeMergePatches([]byte(c.A), []byte(c.B)) }); p != nil {
		return ev.Verdict{Err: p}
	}
	if err == nil {
		ran("MergeMergePatches-ok")
		if e := checkOutput("MergeMergePatches", out, nil); e != nil {
			v.Err = e
			return v
		}
	}
	// CreateMergePatch
	if p := ev.Safe(func() { out, err = jp.CreateMergePatch([]byte(c.A), []byte(c.B)) }); p != nil {
		return ev.Verdict{Err: p}
	}
	if err == nil {
		ran("CreateMergePatch-ok")
		if e := checkOutput("CreateMergePatch", out, nil); e != nil {
			v.Err = e
			return v
		}
	}
	if lone {
		v.Classes = append(v.Classes, "lone-surrogate-escape")
	}
	v.NonTrivial = n >= 2 && (lone || a.AnyString(hasFive) || b.AnyString(hasFive))
	return v
}

var wfUnit = ev.Unit[WFCase]{
	Name: "wellformed-all-functions",
	Rule: "pairs of texts in arbitrary spelling (random whitespace, \\uXXXX, \\/, surrogate pairs, spliced lone-surrogate / control-character escapes) with the five HTML-sensitive characters in names and values, plus a generated RFC 6902 patch for the first; every successful result of Apply/ApplyIndent (both EscapeHTML settings), MergePatch, MergeMergePatches and CreateMergePatch must be one RFC 8259 text, valid UTF-8, and (Apply, MergePatch) read back as the reference value; non-trivial = >=2 functions succeeded on a case holding one of the five characters or a lone surrogate escape",
	Draw: drawWF, Check: checkWF,
}

func TestProp(t *testing.T)   { ev.RunProp(t, "C15", applyUnit) }
func TestPropWF(t *testing.T) { ev.RunProp(t, "C15", wfUnit) }
func TestReplay(t *testing.T) {
	ev.Replay(t, map[string]ev.Replayer{applyUnit.Name: applyUnit.Replayer(), wfUnit.Name: wfUnit.Replayer(), deepResUnit.Name: deepResUnit.Replayer()})
}

// ---------- results nested deeper than any accepted input ----------

// DeepResCase: document and patch are each within the codec's nesting limit,
// the result is not (a deep value added at a deep location; a deep subtree
// copied into its own deepest point). The result is still one RFC 8259 text.
type DeepResCase struct {
	Kind  string `json:"kind"`  // "add-deep-value" or "copy-into-itself"
	Depth int    `json:"depth"` // of the document (and of the added value)
	Esc   bool   `json:"escape_html"`
}

func checkDeepRes(c DeepResCase) ev.Verdict {
	if c.Depth < 2 || c.Depth > 9000 {
		return ev.Excluded("depth outside the unit")
	}
	doc := gen.Deep(c.Depth, 0) // [[[...1...]]]
	ptr := strings.Repeat("/0", c.Depth-1)
	var patch string
	switch c.Kind {
	case "add-deep-value-objects":
		// {"a":{"a":...{"a":1}...}}: every level is an object the library parses on the way down
		doc = gen.Deep(c.Depth, 1)
		patch = `[{"op":"add","path":"` + strings.Repeat("/a", c.Depth-1) + `/x","value":` + gen.Deep(c.Depth, 0) + `}]`
	case "copy-into-itself-objects":
		doc = gen.Deep(c.Depth, 1)
		patch = `[{"op":"copy","from":"/a","path":"` + strings.Repeat("/a", c.Depth-1) + `/x"}]`
	case "add-deep-value":
		patch = `[{"op":"add","path":"` + ptr + `/1","value":` + gen.Deep(c.Depth, 0) + `}]`
	case "copy-into-itself":
		patch = `[{"op":"copy","from":"/0","path":"` + ptr + `/1"}]`
	default:
		return ev.Excluded("unknown kind")
	}
	d, ops, why := lib.ParseCase(doc, patch)
	if why != "" {
		return ev.Excluded(why)
	}
	want := ref.Apply(d, ops, ref.Opts{Neg: true})
	if !want.OK() {
		return ev.Excluded("not applicable per the reference")
	}
	r := lib.Apply(doc, patch, lib.Options{Neg: true, Esc: c.Esc})
	v := ev.Verdict{Classes: []string{c.Kind, fmt.Sprintf("depth=%d", c.Depth)}, NonTrivial: true}
	if r.Panic != nil {
		v.Err = r.Panic
		return v
	}
	if r.DecodeErr != nil || r.Err != nil {
		v.Err = fmt.Errorf("an applicable patch failed (document and patch nested %d deep, result deeper): %v %v", c.Depth, r.DecodeErr, r.Err)
		return v
	}
	out, err := ref.ParseAnyDepth(r.Out)
	if err != nil {
		v.Err = fmt.Errorf("output (%d bytes) is not one well-formed RFC 8259 text: %v; it starts %q", len(r.Out), err, headStr(r.Out, 60))
		return v
	}
	if !ref.Equal(out, want.Doc) {
		v.Err = fmt.Errorf("output (%d bytes, nested %d deep) does not read back as the intended value (nested %d deep)", len(r.Out), out.Depth(), want.Doc.Depth())
	}
	return v
}

func headStr(b []byte, n int) string {
	if len(b) > n {
		return string(b[:n])
	}
	return string(b)
}

var deepResUnit = ev.Unit[DeepResCase]{
	Name:  "deep-results",
	Rule:  "enumerated: a document nested d levels with a value nested d levels added at its deepest location, and a deep subtree copied into its own deepest point (d = 200 and 6 000, in the thorough tier also 4 999, 5 001 and 9 000: from 5 001 on the result is nested deeper than the 10 000 levels the codec accepts as input), both EscapeHTML settings, array chains in both tiers and object chains (every level parsed by the library; quadratic, ~15 s each) in the thorough tier; oracle: the patch applies, the output is one RFC 8259 text (reader without nesting limit) denoting the reference result; every case non-trivial",
	Check: checkDeepRes,
}

func TestDeepResult(t *testing.T) {
	ev.HangSeconds = 150 // the object chains take seconds each on an idle machine; this process runs nothing else
	depths := []int{200, 6000}
	if os.Getenv("VERIF_TIER") == "thorough" {
		depths = []int{200, 4999, 5001, 6000, 9000}
	}
	var cases []DeepResCase
	if os.Getenv("VERIF_TIER") == "thorough" {
		// object chains are quadratic in the depth on the way down (~15 s each at 6 000): thorough tier only
		for _, k := range []string{"add-deep-value-objects", "copy-into-itself-objects"} {
			cases = append(cases, DeepResCase{k, 6000, true}, DeepResCase{k, 6000, false})
		}
	}
	for _, d := range depths {
		for _, k := range []string{"add-deep-value", "copy-into-itself"} {
			for _, esc := range []bool{true, false} {
				cases = append(cases, DeepResCase{k, d, esc})
			}
		}
	}
	ev.RunCases(t, "C15", deepResUnit, cases)
}
