// Package ev is the small framework every property package is written
// against: a unit = (generator, check) pair whose cases are plain serialisable
// structs; evidence recording (counts, class histogram, distinct non-trivial
// hashes, samples); failure capture for the driver; replay of saved cases.
//
// Environment (set by /verif/verif.py):
//
//	VERIF_PART    path prefix for the evidence part of this process
//	VERIF_FAIL    path the last failing case is written to (overwritten while shrinking)
//	VERIF_REPLAY  colon-separated replay files for TestReplay
package ev

import (
	"encoding/binary"
	"encoding/json"
	"fmt"
	"hash/fnv"
	"os"
	"runtime/debug"
	"sort"
	"strings"
	"sync"
	"sync/atomic"
	"testing"
	"time"

	"pgregory.net/rapid"
)

// Verdict is what a check says about one case.
type Verdict struct {
	// Excluded: non-empty when the case is outside the property's domain or
	// ambiguous; such a case can never be a violation.
	Excluded string
	// Classes label what the generator produced (histogram in the evidence).
	Classes []string
	// NonTrivial by the unit's stated rule.
	NonTrivial bool
	// Err is a violation of the property.
	Err error
}

func Excluded(why string, classes ...string) Verdict {
	return Verdict{Excluded: why, Classes: classes}
}

func Fail(format string, a ...any) Verdict {
	return Verdict{Err: fmt.Errorf(format, a...)}
}

// Unit couples a generator with a check over a serialisable case type.
type Unit[C any] struct {
	Name  string
	Rule  string // how cases are generated and what makes one non-trivial
	Draw  func(*rapid.T) C
	Check func(C) Verdict
	// Guard: write every case to VERIF_FAIL.pending before running it (so that a
	// fatal error, a race-detector abort or a hang leaves the case behind) and
	// arm the hang watchdog.
	Guard bool
}

type rec struct {
	mu          sync.Mutex
	Property    string            `json:"property"`
	Unit        string            `json:"unit"`
	Rule        string            `json:"rule"`
	Evaluations int64             `json:"evaluations"`
	InDomain    int64             `json:"in_domain"`
	Excluded    map[string]int64  `json:"excluded"`
	Classes     map[string]int64  `json:"classes"`
	NonTrivial  int64             `json:"nontrivial"`
	Violations  int64             `json:"violations"`
	Samples     []json.RawMessage `json:"samples"`
	Extra       map[string]any    `json:"extra,omitempty"`
	perClass    map[string]int
	hashes      map[uint64]struct{}
}

func newRec(prop, unit, rule string) *rec {
	return &rec{Property: prop, Unit: unit, Rule: rule, Excluded: map[string]int64{}, Classes: map[string]int64{},
		perClass: map[string]int{}, hashes: map[uint64]struct{}{}}
}

const maxSamples = 12

func (r *rec) record(c any, v Verdict) {
	r.mu.Lock()
	defer r.mu.Unlock()
	r.Evaluations++
	for _, cl := range v.Classes {
		r.Classes[cl]++
	}
	if v.Excluded != "" {
		r.Excluded[v.Excluded]++
		return
	}
	r.InDomain++
	if v.Err != nil {
		r.Violations++
	}
	if !v.NonTrivial {
		return
	}
	r.NonTrivial++
	b, err := json.Marshal(c)
	if err != nil {
		return
	}
	h := fnv.New64a()
	h.Write(b)
	r.hashes[h.Sum64()] = struct{}{}
	key := strings.Join(v.Classes, ",")
	if len(r.Samples) < maxSamples && r.perClass[key] < 2 && len(b) < 4096 {
		r.perClass[key]++
		r.Samples = append(r.Samples, json.RawMessage(b))
	}
}

func (r *rec) flush() {
	p := os.Getenv("VERIF_PART")
	if p == "" {
		return
	}
	r.mu.Lock()
	defer r.mu.Unlock()
	b, _ := json.Marshal(r)
	_ = os.WriteFile(p+".json", b, 0o644)
	hs := make([]uint64, 0, len(r.hashes))
	for h := range r.hashes {
		hs = append(hs, h)
	}
	sort.Slice(hs, func(i, j int) bool { return hs[i] < hs[j] })
	buf := make([]byte, 8*len(hs))
	for i, h := range hs {
		binary.LittleEndian.PutUint64(buf[8*i:], h)
	}
	_ = os.WriteFile(p+".hashes", buf, 0o644)
}

type failFile struct {
	Property string          `json:"property"`
	Unit     string          `json:"unit"`
	Message  string          `json:"message"`
	Case     json.RawMessage `json:"case"`
	Race     bool            `json:"race,omitempty"` // captured by a race-detector build: replay with one
}

func writeFail(prop, unit string, c any, msg string) {
	p := os.Getenv("VERIF_FAIL")
	if p == "" {
		return
	}
	cb, err := json.Marshal(c)
	if err != nil {
		cb = []byte(fmt.Sprintf("%q", fmt.Sprint(c)))
	}
	b, _ := json.MarshalIndent(failFile{prop, unit, msg, cb, RaceEnabled}, "", " ")
	_ = os.WriteFile(p, b, 0o644)
}

// Safe runs f and converts a panic into an error (with stack). The closure
// must contain library calls only — never a rapid draw.
func Safe(f func()) (err error) {
	defer func() {
		if p := recover(); p != nil {
			err = fmt.Errorf("panic: %v\n%s", p, trimStack(debug.Stack()))
		}
	}()
	f()
	return nil
}

// trimStack keeps the frames between the panic and the harness.
func trimStack(st []byte) string {
	lines := strings.Split(string(st), "\n")
	var out []string
	seenPanic := false
	for i := 0; i < len(lines); i++ {
		l := lines[i]
		if strings.HasPrefix(l, "panic(") {
			seenPanic = true
			i++ // skip its file line
			continue
		}
		if !seenPanic {
			continue
		}
		if strings.Contains(l, "/xverif/") {
			break
		}
		out = append(out, l)
		if len(out) >= 16 {
			break
		}
	}
	return strings.Join(out, "\n")
}

// RunProp drives unit u with rapid and records evidence.
func RunProp[C any](t *testing.T, prop string, u Unit[C]) {
	r := newRec(prop, u.Name, u.Rule)
	defer r.flush()
	g := newGuard(prop, u.Name, u.Guard)
	defer g.stop()
	rapid.Check(t, func(rt *rapid.T) {
		c := u.Draw(rt)
		g.begin(c)
		v := u.Check(c)
		g.end()
		r.record(c, v)
		if v.Err != nil && v.Excluded == "" {
			writeFail(prop, u.Name, c, v.Err.Error())
			b, _ := json.Marshal(c)
			rt.Fatalf("%s/%s violated: %v\ncase: %s", prop, u.Name, v.Err, b)
		}
	})
}

// Shard returns (k, n) of VERIF_SHARD="k/n" (0, 1 when unset).
func Shard() (int, int) {
	var k, n int
	if _, err := fmt.Sscanf(os.Getenv("VERIF_SHARD"), "%d/%d", &k, &n); err != nil || n <= 0 {
		return 0, 1
	}
	return k, n
}

// RunCases drives unit u over an explicit, enumerated list of cases.
func RunCases[C any](t *testing.T, prop string, u Unit[C], cases []C) {
	r := newRec(prop, u.Name, u.Rule)
	defer r.flush()
	g := newGuard(prop, u.Name, u.Guard)
	defer g.stop()
	for _, c := range cases {
		g.begin(c)
		v := u.Check(c)
		g.end()
		r.record(c, v)
		if v.Err != nil && v.Excluded == "" {
			writeFail(prop, u.Name, c, v.Err.Error())
			b, _ := json.Marshal(c)
			t.Fatalf("%s/%s violated: %v\ncase: %s", prop, u.Name, v.Err, b)
		}
	}
}

// ---------- guard: pending case file and hang watchdog ----------

// HangSeconds is the wall-clock time after which a single case is nominated
// as a hang (the driver then confirms it under a CPU-time limit).
var HangSeconds int64 = 30

// Every unit runs under the hang watchdog, which keeps the running case in
// memory and writes it out when it nominates a hang. Units with Guard set
// additionally write every case to VERIF_FAIL.pending before running it, so
// that a dying process (fatal error, race-detector abort) leaves it behind.
type guard struct {
	prop, unit string
	path       string // pending file ("" = light guard)
	cur        atomic.Pointer[any]
	start      atomic.Int64 // unix nanos of the running case, 0 when idle
	done       chan struct{}
}

func newGuard(prop, unit string, pending bool) *guard {
	g := &guard{prop: prop, unit: unit, done: make(chan struct{})}
	// VERIF_PENDING: the driver re-runs a shard whose process died without leaving a case behind
	if p := os.Getenv("VERIF_FAIL"); p != "" && (pending || os.Getenv("VERIF_PENDING") != "") {
		g.path = p + ".pending"
	}
	go func() {
		tk := time.NewTicker(time.Second)
		defer tk.Stop()
		for {
			select {
			case <-g.done:
				return
			case <-tk.C:
				st := g.start.Load()
				if st != 0 && time.Now().UnixNano()-st > HangSeconds*int64(time.Second) {
					if fp := os.Getenv("VERIF_FAIL"); fp != "" {
						if cp := g.cur.Load(); cp != nil {
							if cb, err := json.Marshal(*cp); err == nil {
								b, _ := json.Marshal(failFile{prop, unit, "hang nominated", cb, RaceEnabled})
								_ = os.WriteFile(fp+".hang", b, 0o644)
							}
						}
					}
					fmt.Printf("HANG-NOMINATED %s/%s: a case ran longer than %ds\n", prop, unit, HangSeconds)
					os.Exit(3)
				}
			}
		}
	}()
	return g
}

func (g *guard) begin(c any) {
	g.cur.Store(&c)
	if g.path != "" {
		cb, err := json.Marshal(c)
		if err == nil {
			b, _ := json.Marshal(failFile{g.prop, g.unit, "pending", cb, RaceEnabled})
			_ = os.WriteFile(g.path, b, 0o644)
		}
	}
	g.start.Store(time.Now().UnixNano())
}

func (g *guard) end() { g.start.Store(0) }

func (g *guard) stop() {
	close(g.done)
	if g.path != "" {
		_ = os.Remove(g.path)
	}
}

// ReportFuzzFailure lets a native fuzz target leave its failing case for the driver.
func ReportFuzzFailure(prop, unit string, c any, err error) {
	writeFail(prop, unit, c, err.Error())
}

// Replayer re-runs one saved case of a unit.
type Replayer func(raw json.RawMessage) Verdict

func (u Unit[C]) Replayer() Replayer {
	return func(raw json.RawMessage) Verdict {
		var c C
		if err := json.Unmarshal(raw, &c); err != nil {
			return Excluded("replay file does not decode into the case type: " + err.Error())
		}
		return u.Check(c)
	}
}

// Replay re-runs the files named by VERIF_REPLAY. Each file produces one
// line "REPLAY <path> PASS|FAIL|EXCLUDED ..." for the driver.
func Replay(t *testing.T, units map[string]Replayer) {
	list := os.Getenv("VERIF_REPLAY")
	if list == "" {
		t.Skip("VERIF_REPLAY not set")
	}
	failed := false
	for _, path := range strings.Split(list, ":") {
		if path == "" {
			continue
		}
		b, err := os.ReadFile(path)
		if err != nil {
			fmt.Printf("REPLAY %s ERROR %v\n", path, err)
			failed = true
			continue
		}
		var ff failFile
		if err := json.Unmarshal(b, &ff); err != nil {
			fmt.Printf("REPLAY %s ERROR %v\n", path, err)
			failed = true
			continue
		}
		rp, ok := units[ff.Unit]
		if !ok {
			fmt.Printf("REPLAY %s ERROR unknown unit %q\n", path, ff.Unit)
			failed = true
			continue
		}
		v := rp(ff.Case)
		switch {
		case v.Excluded != "":
			fmt.Printf("REPLAY %s EXCLUDED %s\n", path, v.Excluded)
		case v.Err != nil:
			fmt.Printf("REPLAY %s FAIL %s\n", path, strings.ReplaceAll(v.Err.Error(), "\n", " | "))
			failed = true
		default:
			fmt.Printf("REPLAY %s PASS\n", path)
		}
	}
	if failed {
		t.Fail()
	}
}

// Extra lets a test attach additional measured numbers to its evidence part.
type Side struct{ r *rec }

// NewSide creates a recorder for hand-written loops (enumerations, stress).
func NewSide(prop, unit, rule string) *Side { return &Side{newRec(prop, unit, rule)} }
func (s *Side) Record(c any, v Verdict)     { s.r.record(c, v) }
func (s *Side) Set(k string, v any) {
	s.r.mu.Lock()
	defer s.r.mu.Unlock()
	if s.r.Extra == nil {
		s.r.Extra = map[string]any{}
	}
	s.r.Extra[k] = v
}

// Count adds n evaluations that were judged without keeping the case (bulk
// enumeration); nt of them non-trivial, distinct by construction.
func (s *Side) Count(n, nt int64, class string) {
	s.r.mu.Lock()
	defer s.r.mu.Unlock()
	s.r.Evaluations += n
	s.r.InDomain += n
	s.r.NonTrivial += nt
	if class != "" {
		s.r.Classes[class] += n
	}
	cur, _ := s.r.Extra["distinct_by_construction"].(int64)
	if s.r.Extra == nil {
		s.r.Extra = map[string]any{}
	}
	s.r.Extra["distinct_by_construction"] = cur + nt
}
func (s *Side) Sample(c any) {
	s.r.mu.Lock()
	defer s.r.mu.Unlock()
	if len(s.r.Samples) < maxSamples {
		b, _ := json.Marshal(c)
		s.r.Samples = append(s.r.Samples, b)
	}
}
func (s *Side) Fail(t testing.TB, c any, msg string) {
	s.r.mu.Lock()
	s.r.Violations++
	s.r.mu.Unlock()
	writeFail(s.r.Property, s.r.Unit, c, msg)
	s.r.flush()
	b, _ := json.Marshal(c)
	t.Fatalf("%s/%s violated: %s\ncase: %s", s.r.Property, s.r.Unit, msg, b)
}
func (s *Side) Flush() { s.r.flush() }

// FuzzCheck is the body of a native fuzz target: it runs a unit's check on
// the case decoded from the fuzzer's arguments and leaves a replay file (under
// the unit's own name, so that TestReplay re-runs it) when the property fails.
func FuzzCheck[C any](t *testing.T, prop string, u Unit[C], c C) {
	if v := u.Check(c); v.Err != nil && v.Excluded == "" {
		writeFail(prop, u.Name, c, v.Err.Error())
		b, _ := json.Marshal(c)
		t.Fatalf("%s/%s violated: %v\ncase: %s", prop, u.Name, v.Err, b)
	}
}
