//go:build race

package ev

// RaceEnabled reports whether the binary was built with the race detector.
const RaceEnabled = true
