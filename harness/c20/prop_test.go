// C20 — the json-patch command applies its patch files in order, or fails cleanly.
// The binaries are built by the driver from /repo's working tree
// (VERIF_CLI_V5: v5/cmd/json-patch, VERIF_CLI_LEGACY: staged cmd/json-patch).
package c20

import (
	"bytes"
	"context"
	"errors"
	"fmt"
	"io"
	"os"
	"os/exec"
	"path/filepath"
	"strings"
	"testing"
	"time"

	jl "github.com/evanphx/json-patch"
	jp "github.com/evanphx/json-patch/v5"
	"github.com/evanphx/json-patch/v5/xverif/ev"
	"github.com/evanphx/json-patch/v5/xverif/gen"
	"github.com/evanphx/json-patch/v5/xverif/ref"
	"pgregory.net/rapid"
)

type File struct {
	// Kind: "text" (a file with Content), "missing" (path does not exist), "dir" (a directory),
	// "pipe" (Content arrives through an inherited pipe named as /dev/fd/N: readable, but not a regular file and of size 0 to stat),
	// "unreadable" (/proc/self/mem: exists, opens, but reading it fails).
	Kind    string `json:"kind"`
	Content string `json:"content,omitempty"`
	Long    bool   `json:"long_flag,omitempty"` // --patch-file instead of -p
	Attach  bool   `json:"attached,omitempty"`  // --patch-file=PATH / -pPATH
}

type Case struct {
	Binary string `json:"binary"` // "v5" or "legacy"
	Stdin  string `json:"stdin"`
	Files  []File `json:"files"`
	// Pad: that many spaces are appended to the stdin text (insignificant
	// whitespace; makes documents of hundreds of kilobytes without bloating the case).
	Pad int `json:"stdin_padding,omitempty"`
	// Chunks > 1: stdin is written in that many pieces with a short pause between them.
	Chunks int `json:"stdin_chunks,omitempty"`
	// StdinFile: standard input is redirected from a regular file (cmd < doc.json) instead of a pipe.
	StdinFile bool `json:"stdin_from_file,omitempty"`
}

func (c Case) stdin() string {
	if c.Pad > 0 {
		return c.Stdin + strings.Repeat(" ", c.Pad)
	}
	return c.Stdin
}

// chunkReader hands its data out in n pieces, pausing before each but the first.
type chunkReader struct {
	data []byte
	n    int
	done int
}

func (r *chunkReader) Read(p []byte) (int, error) {
	if len(r.data) == 0 {
		return 0, io.EOF
	}
	if r.done > 0 {
		time.Sleep(2 * time.Millisecond)
	}
	left := r.n - r.done
	if left < 1 {
		left = 1
	}
	k := (len(r.data) + left - 1) / left
	if k > len(p) {
		k = len(p)
	}
	copy(p, r.data[:k])
	r.data = r.data[k:]
	r.done++
	return k, nil
}

func drawFor(binary string) func(t *rapid.T) Case {
	return func(t *rapid.T) Case {
		c := Case{Binary: binary}
		doc := gen.Default.Root().Draw(t, "doc")
		switch gen.Uniform(t, 0, 11, "stdin") {
		case 0:
			c.Stdin = ""
		case 1:
			c.Stdin = rapid.SampledFrom([]string{"not json", "{", "[1,", "nul", "{\"a\":1}x", "\x00"}).Draw(t, "bad")
		case 2:
			c.Stdin = gen.Spell(t, doc, "sp") + "\n"
		default:
			c.Stdin = doc.Text(false)
		}
		if c.Stdin != "" && gen.OneIn(t, 12, "big") {
			c.Pad = rapid.SampledFrom([]int{5000, 70000, 300000, 1500000}).Draw(t, "pad")
		}
		if gen.OneIn(t, 10, "chunked") {
			c.Chunks = gen.Uniform(t, 2, 4, "chunks")
		} else if gen.OneIn(t, 5, "stdinfile") {
			c.StdinFile = true
		}
		g := gen.NewOpGen(true).Calm()
		if binary == "legacy" {
			g.Legacy = true
		}
		st := &ref.State{Root: doc.Clone()}
		n := gen.Uniform(t, 0, 4, "nfiles")
		for i := 0; i < n; i++ {
			f := File{Kind: "text", Long: rapid.Bool().Draw(t, "long"), Attach: gen.OneIn(t, 4, "attach")}
			switch k := gen.Uniform(t, 0, 19, "fk"); {
			case k == 0:
				f.Kind = "missing"
			case k == 1:
				f.Kind = "dir"
				if rapid.Bool().Draw(t, "unreadable") {
					f.Kind = "unreadable"
				}
			case k == 2:
				f.Content = rapid.SampledFrom([]string{"", "[", "{}", "[{\"op\":\"add\"}]", "[{\"op\":\"nop\",\"path\":\"/a\"}]", "null x", "[{\"op\":\"add\",\"path\":\"/a\",\"value\":1}"}).Draw(t, "malformed")
			case k == 3: // valid but failing
				g2 := gen.NewOpGen(true)
				g2.NearMiss, g2.TestMismatch = 100, 100
				g2.Legacy = binary == "legacy"
				f.Content = ref.OpsText([]ref.Op{g2.Next(t, st.Root, 0)}, false)
			default:
				m := gen.Uniform(t, 0, 3, "nops")
				var ops []ref.Op
				for j := 0; j < m; j++ {
					op := g.Next(t, st.Root, j)
					trial := &ref.State{Root: st.Root.Clone()}
					if r := ref.Step(trial, op, ref.Opts{Neg: true}); r.Cause != ref.COK {
						continue
					}
					st = trial
					ops = append(ops, op)
				}
				f.Content = ref.OpsText(ops, false)
				if gen.OneIn(t, 4, "ws") {
					// the way files come off editors and other tools: surrounding whitespace, CRLF, a byte-order mark
					// (whatever the library makes of the bytes is what the command must make of them)
					switch gen.Uniform(t, 0, 5, "wsk") {
					case 0:
						f.Content = " " + f.Content + "\n"
					case 1:
						f.Content = f.Content + "\r\n"
					case 2:
						f.Content = "\ufeff" + f.Content
					case 3:
						f.Content = f.Content + "\n\n\n"
					case 4:
						f.Content = strings.ReplaceAll(f.Content, ",", ",\r\n\t")
					default:
						f.Content = f.Content + strings.Repeat(" ", 70000) // larger than one pipe/page-sized read
					}
				}
			}
			if f.Kind == "text" && len(f.Content) < 30000 && gen.OneIn(t, 12, "pipe") {
				f.Kind = "pipe"
			}
			c.Files = append(c.Files, f)
		}
		return c
	}
}

type expect struct {
	ok     bool
	out    []byte
	failAt int    // index of the file that fails (-1: none)
	why    string // what fails
	panic  error
}

// fold computes the expected outcome with the library in process.
func fold(c Case, order []int) expect {
	e := expect{failAt: -1}
	for _, i := range order {
		if c.Files[i].Kind != "text" && c.Files[i].Kind != "pipe" {
			return expect{failAt: i, why: "unreadable " + c.Files[i].Kind}
		}
	}
	type applier func([]byte) ([]byte, error)
	var patches []applier
	for _, i := range order {
		content := []byte(c.Files[i].Content)
		var ap applier
		var err error
		e.panic = ev.Safe(func() {
			if c.Binary == "legacy" {
				var p jl.Patch
				p, err = jl.DecodePatch(content)
				ap = p.Apply
			} else {
				var p jp.Patch
				p, err = jp.DecodePatch(content)
				ap = p.Apply
			}
		})
		if e.panic != nil {
			return e
		}
		if err != nil {
			return expect{failAt: i, why: "decode: " + err.Error()}
		}
		patches = append(patches, ap)
	}
	doc := []byte(c.stdin())
	for n, ap := range patches {
		var err error
		e.panic = ev.Safe(func() { doc, err = ap(doc) })
		if e.panic != nil {
			return e
		}
		if err != nil {
			return expect{failAt: order[n], why: "apply: " + err.Error()}
		}
	}
	e.ok, e.out = true, doc
	return e
}

type result struct {
	exit   int
	stdout []byte
	stderr []byte
}

func runCLI(c Case) (result, error) {
	bin := os.Getenv("VERIF_CLI_" + strings.ToUpper(c.Binary))
	if bin == "" {
		return result{}, fmt.Errorf("VERIF_CLI_%s not set", strings.ToUpper(c.Binary))
	}
	dir, err := os.MkdirTemp(".", "case")
	if err != nil {
		return result{}, err
	}
	defer os.RemoveAll(dir)
	var args []string
	var extra []*os.File
	defer func() {
		for _, f := range extra {
			f.Close()
		}
	}()
	for i, f := range c.Files {
		// names a shell would mangle, passed without a shell: they are just names; every
		// file has the same base name, in a directory of its own (the path is the file's identity)
		sub := filepath.Join(dir, fmt.Sprintf("d%d", i))
		if err := os.Mkdir(sub, 0o755); err != nil {
			return result{}, err
		}
		p := filepath.Join(sub, "p,$HOME ${x} %s.json")
		switch f.Kind {
		case "unreadable":
			p = "/proc/self/mem"
		case "pipe":
			if len(f.Content) > 32000 {
				return result{}, fmt.Errorf("pipe content too large for one pipe buffer")
			}
			r, w, err := os.Pipe()
			if err != nil {
				return result{}, err
			}
			if _, err := w.Write([]byte(f.Content)); err != nil {
				return result{}, err
			}
			w.Close()
			extra = append(extra, r)
			p = fmt.Sprintf("/dev/fd/%d", 2+len(extra))
		case "text":
			if err := os.WriteFile(p, []byte(f.Content), 0o644); err != nil {
				return result{}, err
			}
		case "dir":
			if err := os.Mkdir(p, 0o755); err != nil {
				return result{}, err
			}
		}
		switch {
		case f.Long && f.Attach:
			args = append(args, "--patch-file="+p)
		case f.Long:
			args = append(args, "--patch-file", p)
		case f.Attach:
			args = append(args, "-p"+p)
		default:
			args = append(args, "-p", p)
		}
	}
	ctx, cancel := context.WithTimeout(context.Background(), 60*time.Second)
	defer cancel()
	cmd := exec.CommandContext(ctx, bin, args...)
	if c.StdinFile {
		sp := filepath.Join(dir, "stdin.json")
		if err := os.WriteFile(sp, []byte(c.stdin()), 0o644); err != nil {
			return result{}, err
		}
		sf, err := os.Open(sp)
		if err != nil {
			return result{}, err
		}
		defer sf.Close()
		cmd.Stdin = sf // an *os.File is handed to the child as it is: no pipe in between
	} else if c.Chunks > 1 {
		cmd.Stdin = &chunkReader{data: []byte(c.stdin()), n: c.Chunks}
	} else {
		cmd.Stdin = strings.NewReader(c.stdin())
	}
	cmd.ExtraFiles = extra
	var so, se bytes.Buffer
	cmd.Stdout, cmd.Stderr = &so, &se
	err = cmd.Run()
	r := result{stdout: so.Bytes(), stderr: se.Bytes()}
	var ee *exec.ExitError
	switch {
	case err == nil:
	case errors.As(err, &ee):
		r.exit = ee.ExitCode()
	default:
		return r, err
	}
	if ctx.Err() != nil {
		return r, fmt.Errorf("timeout")
	}
	return r, nil
}

func check(c Case) ev.Verdict {
	if c.Binary != "v5" && c.Binary != "legacy" {
		return ev.Excluded("unknown binary")
	}
	if len(c.Files) > 8 {
		return ev.Excluded("more than 8 patch files")
	}
	order := make([]int, len(c.Files))
	for i := range order {
		order[i] = i
	}
	want := fold(c, order)
	if want.panic != nil {
		return ev.Excluded("the library itself panics on this input (C04's matter)", "library-panic")
	}
	got, err := runCLI(c)
	if err != nil {
		return ev.Excluded("could not run the command: "+err.Error(), "infrastructure")
	}
	v := ev.Verdict{Classes: []string{c.Binary, fmt.Sprintf("files=%d", len(c.Files)), fmt.Sprintf("stdin-from-file=%v", c.StdinFile)}}
	// non-trivial: the order of >=2 files matters, or a failure at file index >=1
	if want.ok && len(c.Files) >= 2 {
		rev := make([]int, len(order))
		for i := range order {
			rev[i] = order[len(order)-1-i]
		}
		if r := fold(c, rev); r.panic == nil && (!r.ok || !bytes.Equal(r.out, want.out)) {
			v.NonTrivial = true
			v.Classes = append(v.Classes, "order-matters")
		}
	}
	if !want.ok && want.failAt >= 1 {
		v.NonTrivial = true
	}
	if want.ok {
		v.Classes = append(v.Classes, "success")
		switch {
		case got.exit != 0:
			v.Err = fmt.Errorf("the library applies all patches but the command exited %d; stderr: %s", got.exit, got.stderr)
		case !bytes.Equal(got.stdout, want.out):
			v.Err = fmt.Errorf("stdout differs from applying the patches in order with the library\n got:  %q\n want: %q", got.stdout, want.out)
		case len(got.stderr) != 0:
			v.Err = fmt.Errorf("success but stderr is not empty: %q", got.stderr)
		}
		return v
	}
	v.Classes = append(v.Classes, "failure/"+strings.SplitN(want.why, ":", 2)[0])
	switch {
	case got.exit == 0:
		v.Err = fmt.Errorf("file %d fails (%s) but the command exited 0 with stdout %q", want.failAt, want.why, got.stdout)
	case len(got.stdout) != 0:
		v.Err = fmt.Errorf("file %d fails (%s) but the command wrote to stdout: %q", want.failAt, want.why, got.stdout)
	case len(bytes.TrimSpace(got.stderr)) == 0:
		v.Err = fmt.Errorf("file %d fails (%s) but nothing was reported on stderr (exit %d)", want.failAt, want.why, got.exit)
	case bytes.Contains(got.stderr, []byte("goroutine ")) && bytes.Contains(got.stderr, []byte("panic")):
		v.Err = fmt.Errorf("the command crashed with a Go panic: %s", got.stderr)
	}
	return v
}

const rule = "stdin = generated document (canonical, re-spelled with trailing newline, empty, or non-JSON) x 0-4 patch files in significant order, each valid-and-applicable (0-3 state-aware operations building on the previous files), valid-but-failing, malformed, missing, or a directory, passed as -p PATH, -pPATH, --patch-file PATH or --patch-file=PATH; oracle: fold of the library's own DecodePatch/Apply in process; success => exit 0, stdout byte-identical, stderr empty; otherwise exit != 0, stdout empty, stderr non-empty without a Go panic trace; non-trivial = >=2 files whose reversal changes the outcome, or a failure at file index >=1"

var (
	v5Unit     = ev.Unit[Case]{Name: "cli-v5", Rule: "binary built from v5/cmd/json-patch: " + rule, Draw: drawFor("v5"), Check: check}
	legacyUnit = ev.Unit[Case]{Name: "cli-legacy", Rule: "binary built from the staged legacy cmd/json-patch: " + rule, Draw: drawFor("legacy"), Check: check}
)

func TestProp(t *testing.T)       { ev.RunProp(t, "C20", v5Unit) }
func TestPropLegacy(t *testing.T) { ev.RunProp(t, "C20", legacyUnit) }
func TestReplay(t *testing.T) {
	ev.Replay(t, map[string]ev.Replayer{v5Unit.Name: v5Unit.Replayer(), legacyUnit.Name: legacyUnit.Replayer(), manyUnit.Name: manyUnit.Replayer()})
}

// ---------- many patch files under a low descriptor limit ----------

// ManyCase: n one-operation patch files, applied by the command while it may
// hold at most `limit` file descriptors (set with ulimit in a wrapper shell).
// A command that keeps every patch file open until it exits runs out of
// descriptors long before a command that reads and closes them one by one.
type ManyCase struct {
	Binary string `json:"binary"`
	N      int    `json:"patch_files"`
	Limit  int    `json:"descriptor_limit"`
	// Bad: that many of the files (the first ones) are malformed; the command must then fail,
	// however many there are (an exit status computed from a count wraps at 256).
	Bad int `json:"malformed_files,omitempty"`
}

func checkMany(c ManyCase) ev.Verdict {
	if c.N < 1 || c.N > 2000 || c.Limit < 32 || c.Limit > 4096 {
		return ev.Excluded("sizes outside the unit")
	}
	bin := os.Getenv("VERIF_CLI_" + strings.ToUpper(c.Binary))
	if bin == "" {
		return ev.Excluded("binary not built", "infrastructure")
	}
	dir, err := os.MkdirTemp(".", "many")
	if err != nil {
		return ev.Excluded("could not create the patch files: "+err.Error(), "infrastructure")
	}
	defer os.RemoveAll(dir)
	doc := []byte(`{"start":true}`)
	want := doc
	args := []string{"-c", `ulimit -n "$1"; shift; exec "$@"`, "sh", fmt.Sprint(c.Limit), bin}
	for i := 0; i < c.N; i++ {
		text := fmt.Sprintf(`[{"op":"add","path":"/k%d","value":%d}]`, i, i)
		if i < c.Bad {
			text = `[{"op":"add","path":`
		}
		p := filepath.Join(dir, fmt.Sprintf("p%d.json", i))
		if err := os.WriteFile(p, []byte(text), 0o644); err != nil {
			return ev.Excluded("could not create the patch files: "+err.Error(), "infrastructure")
		}
		args = append(args, "-p", p)
		if i < c.Bad {
			continue
		}
		var perr error
		if pn := ev.Safe(func() {
			if c.Binary == "legacy" {
				var pt jl.Patch
				if pt, perr = jl.DecodePatch([]byte(text)); perr == nil {
					want, perr = pt.Apply(want)
				}
			} else {
				var pt jp.Patch
				if pt, perr = jp.DecodePatch([]byte(text)); perr == nil {
					want, perr = pt.Apply(want)
				}
			}
		}); pn != nil || perr != nil {
			return ev.Excluded("the library itself fails on this input", "library-panic")
		}
	}
	ctx, cancel := context.WithTimeout(context.Background(), 120*time.Second)
	defer cancel()
	cmd := exec.CommandContext(ctx, "sh", args...)
	cmd.Stdin = bytes.NewReader(doc)
	var so, se bytes.Buffer
	cmd.Stdout, cmd.Stderr = &so, &se
	rerr := cmd.Run()
	if ctx.Err() != nil {
		return ev.Excluded("timeout running the command", "infrastructure")
	}
	v := ev.Verdict{Classes: []string{c.Binary, fmt.Sprintf("files=%d", c.N), fmt.Sprintf("limit=%d", c.Limit), fmt.Sprintf("malformed=%d", c.Bad)}, NonTrivial: c.N > c.Limit || c.Bad > 0}
	if c.Bad > 0 {
		if rerr == nil || so.Len() > 0 || se.Len() == 0 {
			v.Err = fmt.Errorf("%d of %d patch files are malformed but the command ended with %v, %d bytes on stdout, %d bytes on stderr (want a non-zero exit, no document, a message)", c.Bad, c.N, rerr, so.Len(), se.Len())
		}
		return v
	}
	if rerr != nil {
		v.Err = fmt.Errorf("%d valid patch files under a limit of %d descriptors: the command failed (%v); stderr: %s", c.N, c.Limit, rerr, headOf(se.String(), 400))
		return v
	}
	if !bytes.Equal(so.Bytes(), want) {
		v.Err = fmt.Errorf("%d valid patch files: stdout differs from applying them in order with the library\n got:  %s\n want: %s", c.N, headOf(so.String(), 300), headOf(string(want), 300))
	}
	return v
}

func headOf(s string, n int) string {
	if len(s) > n {
		return s[:n]
	}
	return s
}

var manyUnit = ev.Unit[ManyCase]{
	Name:  "many-patch-files",
	Rule:  "enumerated: both commands x (1, 255, 256, 257, 512) malformed patch files followed by 3 valid ones (must fail, whatever the count), and (40, 150, 400) valid one-operation patch files applied to a small document while the command may hold at most 64 / 100 file descriptors (ulimit -n in a wrapper shell); oracle: exit 0 and stdout byte-identical to applying the patches in order with the library; non-trivial = more files than descriptors",
	Check: checkMany,
}

func TestManyFiles(t *testing.T) {
	var cases []ManyCase
	for _, b := range []string{"v5", "legacy"} {
		for _, n := range []int{40, 150, 400} {
			for _, l := range []int{64, 100} {
				cases = append(cases, ManyCase{Binary: b, N: n, Limit: l})
			}
		}
		for _, bad := range []int{1, 255, 256, 257, 512} {
			cases = append(cases, ManyCase{Binary: b, N: bad + 3, Limit: 1024, Bad: bad})
		}
	}
	ev.RunCases(t, "C20", manyUnit, cases)
}
