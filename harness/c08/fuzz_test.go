package c08

import (
	"testing"

	"github.com/evanphx/json-patch/v5/xverif/ev"
	"github.com/evanphx/json-patch/v5/xverif/lib"
)

// FuzzFail: (document, patch, option bits, limit) through the failure oracle.
func FuzzFail(f *testing.F) {
	for _, d := range []string{`{"a":{"b":[1,2,{"c":null}]},"s":"<&>","n":null}`, `[[1,2],{"a":null},"s"]`, `{}`} {
		for _, p := range []string{
			`[{"op":"copy","from":"/a","path":"/z"},{"op":"copy","from":"/z","path":"/y"},{"op":"test","path":"/s","value":"x"},{"op":"remove","path":"/q"}]`,
			`[{"op":"remove","path":"/a/b/7"},{"op":"add","path":"/n/x","value":1},{"op":"move","from":"","path":"/a"}]`,
			`[{"op":"add","path":"/p/q/r","value":1},{"op":"remove","path":"/nope/deeper"},{"op":"replace","path":"/a/b/-1","value":0},{"op":"copy","from":"/0","path":"/-"}]`,
		} {
			for bits := 0; bits < 16; bits += 5 {
				f.Add([]byte(d), []byte(p), uint8(bits), int64(bits*7))
			}
		}
	}
	f.Fuzz(func(t *testing.T, doc, patch []byte, bits uint8, limit int64) {
		if limit < 0 || limit > 1<<20 {
			limit = 0
		}
		o := lib.Options{Neg: bits&1 != 0, AllowMissing: bits&2 != 0, Ensure: bits&4 != 0, Esc: bits&8 != 0, Limit: limit}
		ev.FuzzCheck(t, "C08", unit, Case{Doc: string(doc), Patch: string(patch), Opts: o})
	})
}
