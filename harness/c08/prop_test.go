// C08 — a failing Apply returns nothing and says why (v5).
package c08

import (
	"errors"
	"fmt"
	"testing"

	jp "github.com/evanphx/json-patch/v5"
	"github.com/evanphx/json-patch/v5/xverif/ev"
	"github.com/evanphx/json-patch/v5/xverif/gen"
	"github.com/evanphx/json-patch/v5/xverif/lib"
	"github.com/evanphx/json-patch/v5/xverif/ref"
	"pgregory.net/rapid"
)

type Case struct {
	Doc   string      `json:"doc"`
	Patch string      `json:"patch"`
	Opts  lib.Options `json:"options"`
}

func draw(t *rapid.T) Case {
	doc := gen.Default.Root().Draw(t, "doc")
	o := lib.Options{Neg: rapid.Bool().Draw(t, "neg"), Esc: rapid.Bool().Draw(t, "esc")}
	o.AllowMissing = gen.OneIn(t, 4, "allow")
	o.Ensure = gen.OneIn(t, 5, "ensure")
	g := gen.NewOpGen(o.Neg)
	g.Orig = doc.Clone()
	g.NearMiss, g.TestMismatch = 0, 0
	g.Kinds = []string{"add", "add", "remove", "replace", "move", "copy", "copy", "test", "test"}
	ro := o.Ref()
	st := &ref.State{Root: doc.Clone()}
	var ops []ref.Op
	step := func(op ref.Op) bool {
		ops = append(ops, op)
		trial := &ref.State{Root: st.Root.Clone(), Lo: st.Lo, Hi: st.Hi}
		if r := ref.Step(trial, op, ro); r.Cause != ref.COK {
			return false
		}
		st = trial
		return true
	}
	// a prefix of applicable operations
	n := gen.Uniform(t, 0, 5, "prefix")
	ok := true
	for i := 0; i < n && ok; i++ {
		ok = step(g.Next(t, st.Root, i))
	}
	// one operation meant to be inapplicable
	if ok && !gen.OneIn(t, 12, "nofail") {
		g.NearMiss, g.TestMismatch = 100, 100
		switch gen.Uniform(t, 0, 5, "badkind") {
		case 0:
			g.Kinds = []string{"test"}
		case 1:
			g.Kinds = []string{"move", "copy"}
		case 2:
			g.Kinds = []string{"remove", "replace"}
		default:
			g.Kinds = gen.AllKinds
		}
		ok = step(g.Next(t, st.Root, len(ops)))
	}
	// operations after it must not matter
	g.NearMiss, g.TestMismatch, g.Kinds = 10, 20, gen.AllKinds
	m := gen.Uniform(t, 0, 3, "suffix")
	for i := 0; i < m; i++ {
		if ok {
			ok = step(g.Next(t, st.Root, len(ops)))
		} else {
			ops = append(ops, g.Next(t, st.Root, len(ops)))
		}
	}
	// a copy limit around one of the running totals
	if !gen.OneIn(t, 2, "nolimit") {
		var totals []int64
		s2 := &ref.State{Root: doc.Clone()}
		for _, op := range ops {
			r := ref.Step(s2, op, ro)
			if r.Cause != ref.COK {
				break
			}
			if r.Copied != nil {
				totals = append(totals, s2.Lo)
			}
		}
		if len(totals) > 0 {
			tot := totals[rapid.IntRange(0, len(totals)-1).Draw(t, "tot")]
			o.Limit = tot + int64(gen.Uniform(t, -2, 2, "delta"))
			if o.Limit < 1 {
				o.Limit = 1
			}
		} else if gen.OneIn(t, 3, "anylimit") {
			o.Limit = int64(rapid.IntRange(1, 50).Draw(t, "lim"))
		}
	}
	// mostly the encoder's own spelling; sometimes the other setting's spelling of <, >, & or free whitespace and escapes
	switch gen.Uniform(t, 0, 7, "spelling") {
	case 0:
		return Case{Doc: doc.Text(!o.Esc), Patch: ref.OpsText(ops, !o.Esc), Opts: o}
	case 1:
		return Case{Doc: gen.Spell(t, doc, "sd"), Patch: gen.Spell(t, ref.OpsTree(ops), "sp"), Opts: o}
	}
	return Case{Doc: doc.Text(o.Esc), Patch: ref.OpsText(ops, o.Esc), Opts: o}
}

func classify(err error) (isT, isAce, isM bool) {
	var ace *jp.AccumulatedCopySizeError
	return errors.Is(err, jp.ErrTestFailed), errors.As(err, &ace), errors.Is(err, jp.ErrMissing)
}

func check(c Case) ev.Verdict {
	doc, ops, why := lib.ParseCase(c.Doc, c.Patch)
	if why != "" {
		return ev.Excluded(why)
	}
	if c.Opts.Indent != "" {
		return ev.Excluded("the case's own options carry no indent (the check adds one itself)")
	}
	ro := c.Opts.Ref()
	canonical := doc.Text(c.Opts.Esc) == c.Doc && ref.OpsText(ops, c.Opts.Esc) == c.Patch
	if c.Opts.Limit > 0 && !canonical {
		// sizes are defined on the output spelling: measure them in the outputs of the patch prefixes
		sizes, why, err := lib.CopySizes(c.Doc, c.Patch, c.Opts, lib.Apply)
		if why != "" {
			return ev.Excluded(why)
		}
		if err != nil {
			return ev.Verdict{Err: err}
		}
		ro.CopySizes = sizes
	}
	want := ref.Apply(doc, ops, ro)
	if want.OutOfDomain() {
		return ev.Excluded("out of domain: "+want.Res.Why, "ood")
	}
	if c.Opts.Ensure {
		for _, op := range ops {
			if lib.BigIndex(op.Path) {
				return ev.Excluded("array index above 10^4 under EnsurePathExistsOnAdd (quadratic padding; outside C04's stated domain)")
			}
		}
	}
	if c.Opts.Limit > 0 && !canonical && !want.OK() && ops[want.FailAt].Op == "copy" {
		// the size of a copy that cannot be inserted cannot be measured in any output; in a spelling
		// other than the encoder's own the reference size may differ from the library's, and with it
		// the answer to "which of the two causes comes first"
		measured := 0
		for _, op := range ops[:want.FailAt] {
			if op.Op == "copy" {
				measured++
			}
		}
		if measured >= len(ro.CopySizes) && (want.Res.Cause != ref.CCopyLimit || want.Res.Alt != ref.COK) {
			return ev.Excluded("a copy that cannot be inserted has no measurable output size in a spelling other than the encoder's own")
		}
	}
	got := lib.Apply(c.Doc, c.Patch, c.Opts)
	if got.Panic != nil {
		return ev.Verdict{Err: got.Panic}
	}
	if got.DecodeErr != nil {
		return ev.Fail("DecodePatch rejected a valid patch: %v", got.DecodeErr)
	}
	optc := fmt.Sprintf("allow=%v,ensure=%v,limit=%v,canonical-spelling=%v", c.Opts.AllowMissing, c.Opts.Ensure, c.Opts.Limit > 0, canonical)
	if want.OK() {
		v := ev.Verdict{Classes: []string{"all-succeed", optc}}
		if got.Err != nil {
			v.Err = fmt.Errorf("every operation applies in the reference but Apply returned an error: %v", got.Err)
		} else if got.Out == nil {
			v.Err = fmt.Errorf("no error but nil document")
		}
		return v
	}
	op := ops[want.FailAt]
	cause, alt := want.Res.Cause, want.Res.Alt
	v := ev.Verdict{Classes: []string{fmt.Sprintf("fail/%s/%s", op.Op, cause), optc, fmt.Sprintf("failat=%d", min(want.FailAt, 5))}}
	v.NonTrivial = want.FailAt >= 1
	if got.Err == nil {
		v.Err = fmt.Errorf("operation %d (%s) is inapplicable (%s) but Apply returned no error: %s", want.FailAt, op.Op, cause, got.Out)
		return v
	}
	if got.Out != nil {
		v.Err = fmt.Errorf("Apply returned a document together with the error %v: %s", got.Err, got.Out)
		return v
	}
	isT, isAce, isM := classify(got.Err)
	{
		// the indenting entry points are the same function: same failure, same classes, no document
		io := c.Opts
		io.Indent = "\t"
		gi := lib.Apply(c.Doc, c.Patch, io)
		if gi.Panic != nil {
			return ev.Verdict{Err: gi.Panic}
		}
		iT, iAce, iM := classify(gi.Err)
		if gi.Err == nil || gi.Out != nil || iT != isT || iAce != isAce || iM != isM {
			v.Err = fmt.Errorf("ApplyIndentWithOptions reports the failure differently from ApplyWithOptions:\n plain:    %v\n indented: %v / %s", got.Err, gi.Err, gi.Out)
			return v
		}
	}
	either := func(c ref.Cause) bool { return cause == c || (alt != ref.COK && alt == c) }
	both := func(c ref.Cause) bool { return cause == c && (alt == ref.COK || alt == c) }
	if isT && !either(ref.CTestUnequal) {
		v.Err = fmt.Errorf("errors.Is(err, ErrTestFailed) although the first failing operation (%d, %s) fails with %s: %v", want.FailAt, op.Op, cause, got.Err)
	} else if !isT && both(ref.CTestUnequal) {
		v.Err = fmt.Errorf("first failing operation %d is a test that compared unequal but errors.Is(err, ErrTestFailed) is false: %v", want.FailAt, got.Err)
	} else if isAce && !either(ref.CCopyLimit) {
		v.Err = fmt.Errorf("*AccumulatedCopySizeError although the first failing operation (%d, %s) fails with %s: %v", want.FailAt, op.Op, cause, got.Err)
	} else if !isAce && both(ref.CCopyLimit) {
		v.Err = fmt.Errorf("copy %d pushed the total over the limit %d but the error is not *AccumulatedCopySizeError: %v", want.FailAt, c.Opts.Limit, got.Err)
	}
	if v.Err != nil {
		return v
	}
	missingDue := alt == ref.COK && (cause == ref.CParentUnreachable || (cause == ref.CAbsentMember && op.Op != "test"))
	if missingDue && !isM {
		v.Err = fmt.Errorf("operation %d (%s) fails with %s but errors.Is(err, ErrMissing) is false: %v", want.FailAt, op.Op, cause, got.Err)
		return v
	}
	// operations after the first failing one have no effect on the outcome
	if want.FailAt+1 < len(ops) {
		v.Classes = append(v.Classes, "has-suffix")
		tr := lib.Apply(c.Doc, lib.PrefixText(c.Patch, want.FailAt+1), c.Opts)
		if tr.Panic != nil {
			return ev.Verdict{Err: tr.Panic}
		}
		if tr.Err == nil || tr.Out != nil || tr.Err.Error() != got.Err.Error() {
			v.Err = fmt.Errorf("the operations after the failing one changed the outcome:\n full patch: %v\n truncated:  %v", got, tr)
		}
	}
	return v
}

var unit = ev.Unit[Case]{
	Name: "failing-apply",
	Rule: "document x (0-5 applicable operations, then one operation built to be inapplicable - near-miss path of every listed kind, mismatching test, move from the root - then 0-3 arbitrary operations) x all ApplyOptions booleans x copy limit drawn around the model's running total; oracle: option-aware reference evaluator gives the first failing operation and its cause class; non-trivial = the first failing operation is at index >=1",
	Draw: draw, Check: check,
}

func TestProp(t *testing.T)   { ev.RunProp(t, "C08", unit) }
func TestReplay(t *testing.T) { ev.Replay(t, map[string]ev.Replayer{unit.Name: unit.Replayer()}) }
