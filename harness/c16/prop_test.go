// C16 — exactly RFC 8259 JSON is accepted, everywhere.
package c16

import (
	"bytes"
	stdjson "encoding/json"
	"fmt"
	"os"
	"strings"
	"testing"

	jp "github.com/evanphx/json-patch/v5"
	fj "github.com/evanphx/json-patch/v5/internal/json"
	"github.com/evanphx/json-patch/v5/xverif/ev"
	"github.com/evanphx/json-patch/v5/xverif/gen"
	"github.com/evanphx/json-patch/v5/xverif/kf"
	"github.com/evanphx/json-patch/v5/xverif/ref"
	"pgregory.net/rapid"
)

// ---------- the codec: one text, five verdicts ----------

type TextCase struct {
	Text []byte `json:"text"`
}

// codecVerdicts compares Valid, Compact, Indent, Unmarshal (fork) and the
// standard library's Valid with the recogniser. Returns "" when all agree.
func codecVerdicts(b []byte, want bool) (msg string) {
	// a panic of the codec is reported like any other disagreement (the enumerations call this directly)
	if pn := ev.Safe(func() { msg = codecVerdicts0(b, want) }); pn != nil {
		return pn.Error()
	}
	return msg
}

func codecVerdicts0(b []byte, want bool) string {
	if got := stdjson.Valid(b); got != want {
		return fmt.Sprintf("HARNESS: the standard library's Valid = %v but the recogniser says %v", got, want)
	}
	if got := fj.Valid(b); got != want {
		return fmt.Sprintf("Valid = %v, RFC 8259 says %v", got, want)
	}
	var buf bytes.Buffer
	if got := fj.Compact(&buf, b) == nil; got != want {
		return fmt.Sprintf("Compact accepts = %v, RFC 8259 says %v", got, want)
	}
	buf.Reset()
	if got := fj.Indent(&buf, b, "", " ") == nil; got != want {
		return fmt.Sprintf("Indent accepts = %v, RFC 8259 says %v", got, want)
	}
	var a any
	if got := fj.Unmarshal(b, &a) == nil; got != want {
		return fmt.Sprintf("Unmarshal accepts = %v, RFC 8259 says %v", got, want)
	}
	return ""
}

func checkText(c TextCase) ev.Verdict {
	if len(c.Text) > 1<<20 {
		return ev.Excluded("text above 1 MiB")
	}
	want := ref.Valid(c.Text)
	var msg string
	if pn := ev.Safe(func() { msg = codecVerdicts(c.Text, want) }); pn != nil {
		return ev.Verdict{Err: pn}
	}
	v := ev.Verdict{Classes: []string{fmt.Sprintf("wellformed=%v", want)}, NonTrivial: want || len(c.Text) >= 2}
	if msg != "" {
		v.Err = fmt.Errorf("%s", msg)
	}
	return v
}

var alphabet = []byte("{}[],:\"\\-+.01eEtrufalsn \n/\x00\x80b")

func canStart(c byte) bool {
	return strings.IndexByte("{[\"-01tfn \n", c) >= 0
}

// enumerate runs f on every string over alpha of length <= maxLen whose first symbol index is in mine.
func enumBytes(t *testing.T, side *ev.Side, alpha []byte, maxLen int, k, n int) {
	buf := make([]byte, 0, maxLen)
	var total, accepted, nt int64
	var rec func(d int)
	rec = func(d int) {
		want := ref.Valid(buf)
		total++
		if want {
			accepted++
			nt++
			if accepted%997 == 1 {
				side.Sample(map[string]string{"accepted": string(buf)})
			}
		} else if len(buf) >= 2 && canStart(buf[0]) {
			nt++
		}
		if msg := codecVerdicts(buf, want); msg != "" {
			side.Fail(t, TextCase{Text: append([]byte{}, buf...)}, msg)
		}
		if d == maxLen {
			return
		}
		for _, c := range alpha {
			buf = append(buf, c)
			rec(d + 1)
			buf = buf[:len(buf)-1]
		}
	}
	if k == 0 {
		// the empty string
		want := ref.Valid(nil)
		total++
		if msg := codecVerdicts([]byte{}, want); msg != "" {
			side.Fail(t, TextCase{Text: []byte{}}, msg)
		}
	}
	for i, c := range alpha {
		if i%n != k {
			continue
		}
		buf = append(buf[:0], c)
		rec(1)
	}
	side.Count(total, nt, "enumerated")
	side.Set("accepted", accepted)
}

func tierLen(quick, thorough int) int {
	if os.Getenv("VERIF_TIER") == "thorough" {
		return thorough
	}
	return quick
}

func TestEnumBytes(t *testing.T) {
	L := tierLen(5, 6)
	side := ev.NewSide("C16", "enum-bytes", fmt.Sprintf("EXHAUSTIVE: every byte string of length <= %d over the 29-symbol alphabet {}[],:\"\\-+.01eEtrufalsn SP LF / NUL 0x80 b (sharded by first symbol); oracle: Valid, Compact, Indent, Unmarshal of the embedded codec and encoding/json.Valid must all equal the RFC 8259 recogniser; non-trivial = accepted strings, and rejected strings of >= 2 bytes that begin like a JSON text; all enumerated strings are distinct by construction", L))
	defer side.Flush()
	k, n := ev.Shard()
	enumBytes(t, side, alphabet, L, k, n)
	side.Set("exhaustive", true)
	side.Set("max_len", L)
}

var tokens = []string{"true", "false", "null", "0", "-1", "1.5", "1e5", `"a"`, `"é"`, `"\ud800"`, "{", "}", "[", "]", ",", ":", " "}

func TestEnumTokens(t *testing.T) {
	L := tierLen(5, 6)
	side := ev.NewSide("C16", "enum-tokens", fmt.Sprintf("EXHAUSTIVE: every concatenation of <= %d tokens from {true false null 0 -1 1.5 1e5 \"a\" \"é\" \"\\ud800\" { } [ ] , : SP} (reaches long well-formed texts; sharded by first token); same oracle; non-trivial = accepted sequences and rejected ones of >= 2 tokens; distinct token sequences (a few concatenations coincide as byte strings, e.g. none of these tokens is a prefix-composition of others except via SP, so the count is of sequences)", L))
	defer side.Flush()
	k, n := ev.Shard()
	var total, accepted, nt int64
	var buf []byte
	var rec func(d int)
	rec = func(d int) {
		want := ref.Valid(buf)
		total++
		if want {
			accepted++
			nt++
			if accepted%4999 == 1 {
				side.Sample(map[string]string{"accepted": string(buf)})
			}
		} else if d >= 2 {
			nt++
		}
		if msg := codecVerdicts(buf, want); msg != "" {
			side.Fail(t, TextCase{Text: append([]byte{}, buf...)}, msg)
		}
		if d == L {
			return
		}
		for _, tk := range tokens {
			l := len(buf)
			buf = append(buf, tk...)
			rec(d + 1)
			buf = buf[:l]
		}
	}
	for i, tk := range tokens {
		if i%n != k {
			continue
		}
		buf = append(buf[:0], tk...)
		rec(1)
	}
	side.Count(total, nt, "enumerated")
	side.Set("accepted", accepted)
	side.Set("exhaustive", true)
	side.Set("max_tokens", L)
}

// strAlphabet: what matters inside a string literal - the escape introducer,
// the u of \u escapes, hex digits in both cases, non-hex letters on both sides
// of the hex range, the short escapes, control bytes (among them 0x10-0x19,
// which a careless case fold maps onto digits), DEL, and UTF-8 fragments.
var strAlphabet = []byte("\\u\"09aFgG/nx\x10\x19\x1f\x7f\x80\xc3")

func TestEnumStrings(t *testing.T) {
	L := tierLen(5, 6)
	side := ev.NewSide("C16", "enum-strings", fmt.Sprintf("EXHAUSTIVE: every string literal body of length <= %d over the 18 bytes \\ u \" 0 9 a F g G / n x 0x10 0x19 0x1f 0x7f 0x80 0xc3, placed between quotes as a root value and as the member name of {\"...\":0} (sharded by first byte); same oracle as enum-bytes; non-trivial = accepted texts and rejected ones with a body of >= 2 bytes; distinct by construction", L))
	defer side.Flush()
	k, n := ev.Shard()
	var total, accepted, nt int64
	body := make([]byte, 0, L)
	text := make([]byte, 0, L+8)
	try := func() {
		for variant := 0; variant < 2; variant++ {
			text = append(text[:0], '"')
			if variant == 1 {
				text = append(text[:0], '{', '"')
			}
			text = append(text, body...)
			text = append(text, '"')
			if variant == 1 {
				text = append(text, ':', '0', '}')
			}
			want := ref.Valid(text)
			total++
			if want {
				accepted++
				nt++
				if accepted%9973 == 1 {
					side.Sample(map[string]string{"accepted": string(text)})
				}
			} else if len(body) >= 2 {
				nt++
			}
			if msg := codecVerdicts(text, want); msg != "" {
				side.Fail(t, TextCase{Text: append([]byte{}, text...)}, msg)
			}
		}
	}
	var rec func(d int)
	rec = func(d int) {
		try()
		if d == L {
			return
		}
		for _, c := range strAlphabet {
			body = append(body, c)
			rec(d + 1)
			body = body[:len(body)-1]
		}
	}
	if k == 0 {
		body = body[:0]
		try()
	}
	for i, c := range strAlphabet {
		if i%n != k {
			continue
		}
		body = append(body[:0], c)
		rec(1)
	}
	side.Count(total, nt, "enumerated")
	side.Set("accepted", accepted)
	side.Set("exhaustive", true)
	side.Set("max_body_len", L)
}

// TestDepthLimit: nesting of exactly 9 999 / 10 000 / 10 001 levels, every kind.
func TestDepthLimit(t *testing.T) {
	side := ev.NewSide("C16", "depth-limit", "enumerated: arrays, objects and alternating nesting of exactly 9 999, 10 000 and 10 001 levels (and 10 000 levels plus surrounding whitespace); same oracle as the enumeration; every case non-trivial")
	defer side.Flush()
	for kind := 0; kind <= 2; kind++ {
		for _, n := range []int{9999, 10000, 10001} {
			for _, padw := range []string{"", " \n"} {
				b := []byte(padw + gen.Deep(n, kind) + padw)
				c := TextCase{Text: b}
				v := checkText(c)
				side.Record(map[string]any{"kind": kind, "depth": n, "padded": padw != ""}, v)
				if v.Err != nil {
					side.Fail(t, c, v.Err.Error())
				}
			}
		}
	}
}

// ---------- unbounded texts ----------

func drawText(t *rapid.T) TextCase {
	if gen.OneIn(t, 4000, "deep") {
		// nesting exactly around the limit (Indent's output is quadratic in the depth, so rarely)
		n := rapid.SampledFrom([]int{9999, 10000, 10001}).Draw(t, "depth")
		return TextCase{Text: []byte(gen.Deep(n, gen.Uniform(t, 0, 2, "dk")))}
	}
	switch gen.Uniform(t, 0, 9, "tk") {
	case 0, 1:
		return TextCase{Text: gen.Bytes().Draw(t, "hostile")}
	case 2, 3:
		v := gen.Default.Value(4).Draw(t, "v")
		return TextCase{Text: []byte(gen.Spell(t, v, "sp"))}
	case 4:
		// number and string grammar corners
		return TextCase{Text: []byte(rapid.SampledFrom([]string{
			"0", "-0", "00", "01", "-", "-a", "1.", ".1", "1.e1", "1e", "1e+", "1E-0", "1e1.5", "0x10", "+1", "1_000", "Infinity", "NaN", "-Infinity",
			"1.0e+308", "123456789012345678901234567890e9999999", `""`, `"\u0000"`, `"\u00"`, `"\u000g"`, `"\x41"`, `"\a"`, `"\'"`, `"\/"`, `"\ud800\udc00"`, `"\ud800"`, "\"\t\"", "\"\x7f\"", "\"\xff\"", "\"\xc3\"",
			"tru", "True", "nul", "nulll", "falsey", "[1,]", "[,1]", "{,}", `{"a"}`, `{"a":}`, `{"a":1,}`, `{1:2}`, `{'a':1}`, "[1 2]", "[1]]", "[[1]", "//c\n1", "/*c*/1", "1 2", "1,", "\ufeff1", "\x0c1", "\v1", "1\x00", "\u00a01",
		}).Draw(t, "corner"))}
	default:
		v := gen.Default.Value(3).Draw(t, "mv")
		b := []byte(gen.Spell(t, v, "msp"))
		if len(b) == 0 {
			return TextCase{Text: b}
		}
		i := rapid.IntRange(0, len(b)-1).Draw(t, "i")
		switch gen.Uniform(t, 0, 5, "m") {
		case 0:
			b = b[:i]
		case 1:
			b[i] = rapid.SampledFrom(alphabet).Draw(t, "c")
		case 2:
			b = append(b[:i:i], b[i+1:]...)
		case 3:
			b = append(b, rapid.SampledFrom([]string{"x", "]", "}", ",", " 1", "\"", "\x00", "\ufeff", "\v", "\f", "\u00a0", "\u2028", "//"}).Draw(t, "tr")...)
		case 4:
			b = append([]byte(rapid.SampledFrom([]string{"\ufeff", "\v", "\f", "\u00a0", "\u2028", "\x00", "+", "x"}).Draw(t, "lead")), b...)
		case 5:
			b[i] = rapid.Byte().Draw(t, "rb")
		}
		if gen.OneIn(t, 4, "lex") {
			// instead: one scalar token somewhere inside the structure replaced by an almost-JSON token
			b = gen.LexDamage(t, []byte(gen.Spell(t, v, "lsp")), "lx")
		}
		return TextCase{Text: b}
	}
}

var textUnit = ev.Unit[TextCase]{
	Name: "texts",
	Rule: "unbounded texts: generated values in arbitrary spelling, the same with a truncation / byte flip / deletion / trailing or leading junk (BOM, VT, FF, NBSP, U+2028, NUL), number and string grammar corners, hostile byte strings, and nesting of exactly 9 999 / 10 000 / 10 001 levels in arrays, objects and alternations; oracle: as the enumeration (fork Valid/Compact/Indent/Unmarshal and encoding/json.Valid vs the recogniser); non-trivial = accepted, or rejected with >= 2 bytes",
	Draw: drawText, Check: checkText,
}

// ---------- public entry points ----------

type EntryCase struct {
	Func string `json:"func"`
	A    []byte `json:"a"` // document / first argument
	B    []byte `json:"b"` // patch / second argument
}

var entryFuncs = []string{"DecodePatch", "Apply", "MergePatch", "MergeMergePatches", "CreateMergePatch", "Equal"}

func pad(t *rapid.T, s string, l string) []byte {
	ws := func(lbl string) string {
		n := gen.Uniform(t, 0, 3, lbl)
		var sb strings.Builder
		for i := 0; i < n; i++ {
			sb.WriteString(rapid.SampledFrom([]string{" ", "\t", "\n", "\r"}).Draw(t, lbl+"c"))
		}
		return sb.String()
	}
	return []byte(ws(l+"pre") + s + ws(l+"post"))
}

func damage(t *rapid.T, b []byte, l string) []byte {
	b = append([]byte{}, b...)
	if len(b) == 0 {
		return []byte(rapid.SampledFrom([]string{" ", "x", "\x00", "\n"}).Draw(t, l+"e"))
	}
	i := rapid.IntRange(0, len(b)-1).Draw(t, l+"i")
	switch gen.Uniform(t, 0, 4, l+"m") {
	case 0:
		b = b[:i]
	case 1:
		b[i] = rapid.SampledFrom(alphabet).Draw(t, l+"c")
	case 2:
		b = append(b[:i:i], b[i+1:]...)
	case 3:
		b = append(b, rapid.SampledFrom([]string{"x", "]", "}", ",", " 1", "\"", "\x00", "\v"}).Draw(t, l+"tr")...)
	case 4:
		b = append([]byte(rapid.SampledFrom([]string{"\ufeff", "\v", "\f", "\u00a0", "x", "+"}).Draw(t, l+"lead")), b...)
	}
	if gen.OneIn(t, 3, l+"lex") {
		b = gen.LexDamage(t, b, l+"lx")
	}
	return b
}

func drawEntry(t *rapid.T) EntryCase {
	c := EntryCase{Func: rapid.SampledFrom(entryFuncs).Draw(t, "func")}
	cfg := gen.Default
	var a, b string
	switch c.Func {
	case "DecodePatch":
		doc := cfg.Root().Draw(t, "doc")
		a = ref.OpsText(gen.NewOpGen(true).Seq(t, doc, ref.Opts{Neg: true}, 0, 3, 1), false)
	case "Apply":
		doc := cfg.Root().Draw(t, "doc")
		a = doc.Text(false)
		b = ref.OpsText(gen.NewOpGen(true).Calm().Seq(t, doc, ref.Opts{Neg: true}, 0, 2, 0), false)
		if gen.OneIn(t, 3, "emptypatch") {
			b = "[]"
		}
	case "MergePatch":
		d := cfg.Value(3).Draw(t, "d")
		if d.K == ref.KNull {
			d = ref.Obj()
		}
		a, b = d.Text(false), cfg.Value(3).Draw(t, "p").Text(false)
	case "MergeMergePatches":
		a, b = cfg.Object(3).Draw(t, "p1").Text(false), cfg.Object(3).Draw(t, "p2").Text(false)
	case "CreateMergePatch":
		if rapid.Bool().Draw(t, "arr") {
			n := gen.Uniform(t, 0, 2, "n")
			x, y := ref.Arr(), ref.Arr()
			for i := 0; i < n; i++ {
				x.Arr = append(x.Arr, cfg.Object(2).Draw(t, "x"))
				y.Arr = append(y.Arr, cfg.Object(2).Draw(t, "y"))
			}
			a, b = x.Text(false), y.Text(false)
		} else {
			a, b = cfg.Object(3).Draw(t, "x").Text(false), cfg.Object(3).Draw(t, "y").Text(false)
		}
	case "Equal":
		v := cfg.Value(3).Draw(t, "v")
		a, b = v.Text(false), v.Text(true)
	}
	// one case in four: the argument that stays intact is a value of ANY type (a scalar, null, an
	// array where an object is expected ...): whatever route such an argument makes the function
	// take, the other argument must still pass the gate. Judged only when the other one is damaged.
	other := -1
	if c.Func != "DecodePatch" && gen.OneIn(t, 4, "anyshape") {
		other = gen.Uniform(t, 0, 1, "anyside")
		w := cfg.Value(2).Draw(t, "anyv").Text(false)
		if other == 0 {
			a = w
		} else {
			b = w
		}
	}
	c.A, c.B = pad(t, a, "pa"), pad(t, b, "pb")
	if c.Func == "DecodePatch" {
		c.B = nil
	}
	if other >= 0 {
		if other == 0 {
			c.B = damage(t, c.B, "dbo")
		} else {
			c.A = damage(t, c.A, "dao")
		}
		return c
	}
	// damage one argument in about half of the cases
	switch gen.Uniform(t, 0, 3, "dmg") {
	case 0:
		c.A = damage(t, c.A, "da")
	case 1:
		if c.Func != "DecodePatch" {
			c.B = damage(t, c.B, "db")
		}
	case 2:
		// both arguments ill-formed, often byte-identical (shortcuts on identical inputs must not skip the gate)
		if c.Func != "DecodePatch" && gen.OneIn(t, 2, "both") {
			c.A = damage(t, c.A, "da2")
			if rapid.Bool().Draw(t, "same") {
				c.B = append([]byte{}, c.A...)
			} else {
				c.B = damage(t, c.B, "db2")
			}
		}
	}
	return c
}

// rightShape: the well-formed arguments have the shape the function is specified for.
func rightShape(fn string, a, b *ref.V) bool {
	objs := func(v *ref.V) bool {
		if v.K != ref.KArr {
			return false
		}
		for _, e := range v.Arr {
			if e.K != ref.KObj {
				return false
			}
		}
		return true
	}
	switch fn {
	case "DecodePatch":
		_, err := ref.OpsFromTree(a)
		return err == nil
	case "Apply":
		_, err := ref.OpsFromTree(b)
		return err == nil && a.IsContainer()
	case "MergePatch":
		return a.K != ref.KNull
	case "MergeMergePatches":
		return a.K == ref.KObj && b.K == ref.KObj
	case "CreateMergePatch":
		return (a.K == ref.KObj && b.K == ref.KObj) || (objs(a) && objs(b) && len(a.Arr) == len(b.Arr))
	case "Equal":
		return true
	}
	return false
}

func checkEntry(c EntryCase) ev.Verdict {
	aOK, bOK := ref.Valid(c.A), ref.Valid(c.B)
	if c.Func == "DecodePatch" {
		bOK = true
	}
	var accepted bool // no error (Equal: true)
	var detail string
	pn := ev.Safe(func() {
		switch c.Func {
		case "DecodePatch":
			_, err := jp.DecodePatch(c.A)
			accepted, detail = err == nil, fmt.Sprint(err)
		case "Apply":
			p, err := jp.DecodePatch(c.B)
			if err != nil {
				accepted, detail = false, "DecodePatch: "+err.Error()
				return
			}
			out, err := p.Apply(c.A)
			accepted, detail = err == nil, fmt.Sprint(err)
			if err == nil && !ref.Valid(out) && len(c.A) != 0 {
				accepted, detail = true, "accepted, output "+string(out)
			}
		case "MergePatch":
			_, err := jp.MergePatch(c.A, c.B)
			accepted, detail = err == nil, fmt.Sprint(err)
		case "MergeMergePatches":
			_, err := jp.MergeMergePatches(c.A, c.B)
			accepted, detail = err == nil, fmt.Sprint(err)
		case "CreateMergePatch":
			_, err := jp.CreateMergePatch(c.A, c.B)
			accepted, detail = err == nil, fmt.Sprint(err)
		case "Equal":
			accepted = jp.Equal(c.A, c.B)
		default:
			detail = "unknown"
		}
	})
	if detail == "unknown" {
		return ev.Excluded("unknown function")
	}
	if !aOK || !bOK {
		which := "first"
		if aOK {
			which = "second"
		}
		v := ev.Verdict{Classes: []string{c.Func + "/ill-formed-" + which}, NonTrivial: len(c.A)+len(c.B) >= 4}
		if pn != nil {
			v.Err = pn
			return v
		}
		if accepted {
			if c.Func == "Apply" && len(c.A) == 0 && bOK {
				return ev.Excluded(kf.Excluded(kf.ApplyEmptyDocument), c.Func+"/empty-document")
			}
			v.Err = fmt.Errorf("%s accepted although the %s argument is not RFC 8259 JSON (%s)", c.Func, which, detail)
		}
		return v
	}
	a, _ := ref.Parse(c.A)
	var b *ref.V
	if c.Func != "DecodePatch" {
		b, _ = ref.Parse(c.B)
	}
	if a.HasDup() || (b != nil && b.HasDup()) {
		return ev.Excluded("duplicate member names")
	}
	if !rightShape(c.Func, a, b) {
		return ev.Excluded("well-formed but not of the shape the function is specified for", c.Func+"/other-shape")
	}
	if c.Func == "Apply" {
		// acceptance of the document, not applicability of the patch: judge with the model
		ops, _ := ref.OpsFromTree(b)
		if w := ref.Apply(a, ops, ref.Opts{Neg: true}); !w.OK() {
			return ev.Excluded("the patch does not apply (C01/C08)", c.Func+"/inapplicable")
		}
	}
	if c.Func == "Equal" && !ref.Equal(a, b) {
		return ev.Excluded("texts differ in value (C06)")
	}
	padded := string(bytes.TrimSpace(c.A)) != string(c.A) || string(bytes.TrimSpace(c.B)) != string(c.B)
	v := ev.Verdict{Classes: []string{c.Func + "/well-formed"}, NonTrivial: padded}
	if padded {
		v.Classes = append(v.Classes, c.Func+"/whitespace-padded")
	}
	if pn != nil {
		v.Err = pn
		return v
	}
	if !accepted {
		v.Err = fmt.Errorf("%s rejected well-formed arguments of the right shape (%s)", c.Func, detail)
	}
	return v
}

var entryUnit = ev.Unit[EntryCase]{
	Name: "entry-points",
	Rule: "for each of DecodePatch, Apply, MergePatch, MergeMergePatches, CreateMergePatch, Equal: arguments of the right shape (taken from C01/C02/C03/C11: object/array document and applicable patch; non-null merge document; two objects; objects or equal-length arrays of objects; any equal pair) padded with random leading/trailing SP HT LF CR, and in half of the cases one argument damaged (truncated, byte flipped/deleted, trailing or leading junk); in one case of four the argument that stays intact is a value of any JSON type instead (a route chosen by its type must not bypass the gate for the damaged one); oracle: recogniser says ill-formed => error (Equal: false), well-formed => accepted; non-trivial = whitespace-padded accepted case, or ill-formed case of >= 4 bytes",
	Draw: drawEntry, Check: checkEntry,
}

func TestProp(t *testing.T)      { ev.RunProp(t, "C16", textUnit) }
func TestPropEntry(t *testing.T) { ev.RunProp(t, "C16", entryUnit) }
func TestReplay(t *testing.T) {
	tr := textUnit.Replayer()
	ev.Replay(t, map[string]ev.Replayer{textUnit.Name: tr, "enum-bytes": tr, "enum-tokens": tr, "fuzz-valid": tr, entryUnit.Name: entryUnit.Replayer()})
}

// ---------- native fuzz target (thorough tier) ----------

func FuzzValid(f *testing.F) {
	for _, s := range gen.HostileConsts {
		f.Add([]byte(s))
	}
	for _, s := range []string{`{"a":[1,2.5e-3,"x\u00e9\ud83d\ude00",true,false,null,{}]}`, " [ ] ", `"\ud800"`, "-0.0e+0", "1e400", "[[[[[[[[[[]]]]]]]]]]"} {
		f.Add([]byte(s))
	}
	f.Fuzz(func(t *testing.T, b []byte) {
		c := TextCase{Text: b}
		if v := checkText(c); v.Err != nil && v.Excluded == "" {
			ev.ReportFuzzFailure("C16", "fuzz-valid", c, v.Err)
			t.Fatalf("C16 violated: %v", v.Err)
		}
	})
}
