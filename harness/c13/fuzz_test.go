package c13

import (
	"testing"

	"github.com/evanphx/json-patch/v5/xverif/ev"
)

// FuzzAllowMissing: (document, patch, negative-index option) through the metamorphic relation.
func FuzzAllowMissing(f *testing.F) {
	for _, d := range []string{`{"a":{"b":[1,2,3],"n":null},"s":1}`, `[[1],[],{"a":[]}]`, `{}`} {
		for _, p := range []string{`[{"op":"remove","path":"/a/x"},{"op":"remove","path":"/a/b/-3"},{"op":"remove","path":"/q/r/s"},{"op":"remove","path":"/a/b/3"},{"op":"add","path":"/a/x","value":1},{"op":"remove","path":"/a/x"},{"op":"remove","path":"/s/t"}]`, `[{"op":"remove","path":"/1/0"},{"op":"remove","path":"/2/a/0"},{"op":"move","from":"/0/-1","path":"/1/-"}]`} {
			f.Add([]byte(d), []byte(p), true)
			f.Add([]byte(d), []byte(p), false)
		}
	}
	f.Fuzz(func(t *testing.T, doc, patch []byte, neg bool) {
		ev.FuzzCheck(t, "C13", unit, Case{Doc: string(doc), Patch: string(patch), Neg: neg})
	})
}
