// C13 — AllowMissingPathOnRemove skips only removes of absent targets (v5).
package c13

import (
	"errors"
	"fmt"
	"testing"

	jp "github.com/evanphx/json-patch/v5"
	"github.com/evanphx/json-patch/v5/xverif/ev"
	"github.com/evanphx/json-patch/v5/xverif/gen"
	"github.com/evanphx/json-patch/v5/xverif/lib"
	"github.com/evanphx/json-patch/v5/xverif/ref"
	"pgregory.net/rapid"
)

type Case struct {
	Doc   string `json:"doc"`
	Patch string `json:"patch"`
	Neg   bool   `json:"support_negative_indices"`
	// options that both sides of the comparison carry alike
	NoEsc  bool `json:"escape_html_off,omitempty"`
	Ensure bool `json:"ensure_path_exists_on_add,omitempty"`
}

func draw(t *rapid.T) Case {
	doc := gen.Default.Root().Draw(t, "doc")
	neg := rapid.Bool().Draw(t, "neg")
	g := gen.NewOpGen(neg).Calm()
	g.Kinds = []string{"remove", "remove", "remove", "remove", "add", "replace", "move", "copy", "test"}
	rm := gen.NewOpGen(neg)
	rm.Kinds = []string{"remove"}
	rm.NearMiss = 55
	// absent member / index just outside / negative around -len / below a scalar or null /
	// below an absent ancestor / far outside (the malformed-token kinds are outside C13's domain)
	rm.MissKinds = []int{0, 1, 5, 6, 9}
	if neg {
		rm.MissKinds = []int{0, 1, 3, 4, 5, 6, 9}
	}
	ensure := gen.OneIn(t, 5, "ensure")
	ro := ref.Opts{Neg: neg, AllowMissing: true, Ensure: ensure}
	n := gen.Uniform(t, 1, 7, "nops")
	st := &ref.State{Root: doc.Clone()}
	var ops []ref.Op
	for i := 0; i < n; i++ {
		var op ref.Op
		if rapid.Bool().Draw(t, "isrm") {
			op = rm.Next(t, st.Root, i)
		} else {
			op = g.Next(t, st.Root, i)
			if ensure && op.Op == "add" && rapid.Bool().Draw(t, "deeper") {
				// an add below a member that does not exist yet (created under the option), which a later remove may address
				op.Path += "/" + rapid.SampledFrom(gen.Default.Keys).Draw(t, "dk")
			}
		}
		ops = append(ops, op)
		trial := &ref.State{Root: st.Root.Clone()}
		if r := ref.Step(trial, op, ro); r.Cause != ref.COK {
			// one or two more operations after the failing one
			if gen.OneIn(t, 2, "tail") {
				ops = append(ops, g.Next(t, st.Root, i+1))
			}
			break
		}
		st = trial
	}
	dt, pt := gen.Texts(t, doc, ref.OpsTree(ops), false, "sp")
	return Case{Doc: dt, Patch: pt, Neg: neg, NoEsc: gen.OneIn(t, 4, "noesc"), Ensure: ensure}
}

func errClass(err error) string {
	var ace *jp.AccumulatedCopySizeError
	switch {
	case err == nil:
		return "ok"
	case errors.Is(err, jp.ErrTestFailed):
		return "ErrTestFailed"
	case errors.As(err, &ace):
		return "copy-size"
	case errors.Is(err, jp.ErrMissing):
		return "ErrMissing"
	case errors.Is(err, jp.ErrInvalidIndex):
		return "ErrInvalidIndex"
	case errors.Is(err, jp.ErrInvalid):
		return "ErrInvalid"
	}
	return "other"
}

func check(c Case) ev.Verdict {
	doc, ops, why := lib.ParseCase(c.Doc, c.Patch)
	if why != "" {
		return ev.Excluded(why)
	}
	on := lib.Options{Neg: c.Neg, Esc: !c.NoEsc, Ensure: c.Ensure, AllowMissing: true}
	off := lib.Options{Neg: c.Neg, Esc: !c.NoEsc, Ensure: c.Ensure}
	if c.Ensure {
		for _, op := range ops {
			if lib.BigIndex(op.Path) {
				return ev.Excluded("array index above 10^4 under EnsurePathExistsOnAdd (quadratic padding; outside C04's stated domain)")
			}
		}
	}
	want := ref.Apply(doc, ops, on.Ref())
	gotOn := lib.Apply(c.Doc, c.Patch, on)
	if want.OutOfDomain() {
		return ev.Excluded("out of domain: "+want.Res.Why, "ood")
	}
	if gotOn.Panic != nil {
		return ev.Verdict{Err: gotOn.Panic}
	}
	skipped := map[int]bool{}
	for _, i := range want.Skipped {
		skipped[i] = true
	}
	var kept []ref.Op
	for i, op := range ops {
		if !skipped[i] {
			kept = append(kept, op)
		}
	}
	// sanity of the model itself: without the option, P' fails/succeeds the same way
	wantOff := ref.Apply(doc, kept, off.Ref())
	if wantOff.OutOfDomain() {
		return ev.Excluded("out of domain without the option: "+wantOff.Res.Why, "ood")
	}
	gotOff := lib.Apply(c.Doc, ref.OpsText(kept, false), off)
	if gotOff.Panic != nil {
		return ev.Verdict{Err: gotOff.Panic}
	}
	if gotOn.DecodeErr != nil || gotOff.DecodeErr != nil {
		return ev.Fail("DecodePatch rejected a valid patch: %v / %v", gotOn.DecodeErr, gotOff.DecodeErr)
	}
	v := ev.Verdict{Classes: []string{fmt.Sprintf("skipped=%d", min(len(want.Skipped), 4)), fmt.Sprintf("ok=%v", want.OK()), fmt.Sprintf("ensure=%v/noesc=%v", c.Ensure, c.NoEsc)}}
	// non-trivial: a skipped remove followed by a successful operation, or a non-remove failure after a skipped remove
	if len(want.Skipped) > 0 {
		first := want.Skipped[0]
		if want.OK() && first < len(ops)-1 || !want.OK() && want.FailAt > first+1 || !want.OK() && want.FailAt > first && ops[want.FailAt].Op != "remove" {
			v.NonTrivial = true
		}
	}
	for _, i := range want.Skipped {
		switch r := ref.Apply(doc, ops[:i+1], off.Ref()); {
		case r.OK():
		default:
			v.Classes = append(v.Classes, "skip/"+r.Res.Cause.String())
		}
	}
	if want.OK() != (gotOn.Err == nil) {
		v.Err = fmt.Errorf("with the option: reference ok=%v (fail at %d: %s) but library: %v", want.OK(), want.FailAt, want.Res.Cause, gotOn)
		return v
	}
	if (gotOn.Err == nil) != (gotOff.Err == nil) || errClass(gotOn.Err) != errClass(gotOff.Err) {
		v.Err = fmt.Errorf("outcome with the option on P differs from the outcome without it on P minus the skipped removes %v:\n on(P):   %v\n off(P'):  %v", want.Skipped, gotOn, gotOff)
		return v
	}
	if gotOn.Err != nil {
		v.Classes = append(v.Classes, "err/"+errClass(gotOn.Err))
		if gotOn.Out != nil {
			v.Err = fmt.Errorf("document returned together with an error")
		}
		return v
	}
	a, e1 := ref.Parse(gotOn.Out)
	b, e2 := ref.Parse(gotOff.Out)
	if e1 != nil || e2 != nil {
		v.Err = fmt.Errorf("output not well-formed: %q / %q", gotOn.Out, gotOff.Out)
		return v
	}
	if !ref.EqualOrdered(a, b) {
		v.Err = fmt.Errorf("documents differ:\n on(P):  %s\n off(P'): %s", gotOn.Out, gotOff.Out)
	} else if !ref.EqualOrdered(a, want.Doc) {
		v.Err = fmt.Errorf("document differs from the reference (skipped removes must leave it untouched):\n got:  %s\n want: %s", gotOn.Out, want.Doc)
	}
	return v
}

var unit = ev.Unit[Case]{
	Name: "allow-missing",
	Rule: "document x sequence of 1-7 operations, about half of them removes whose target is existing / absent member / out-of-range index (both signs) / below an absent, scalar or null ancestor, the rest drawn from all six kinds x SupportNegativeIndices x (carried by both sides alike) EscapeHTML off in 1 case of 4 and EnsurePathExistsOnAdd in 1 of 5 with adds below members that do not exist yet; oracle: (option on, P) must equal (option off, P minus the removes the model marks skipped) in outcome, error class and ordered document, and equal the model's document; non-trivial = a skipped remove followed by an operation that succeeds, or a non-remove failure after a skipped remove",
	Draw: draw, Check: check,
}

func TestProp(t *testing.T)   { ev.RunProp(t, "C13", unit) }
func TestReplay(t *testing.T) { ev.Replay(t, map[string]ev.Replayer{unit.Name: unit.Replayer()}) }
