// C04 — no exported entry point panics or hangs, whatever bytes it is given
// (v5 module and the staged legacy root package).
package c04

import (
	"fmt"
	"os"
	"strconv"
	"strings"
	"testing"

	jl "github.com/evanphx/json-patch"
	jp "github.com/evanphx/json-patch/v5"
	"github.com/evanphx/json-patch/v5/xverif/ev"
	"github.com/evanphx/json-patch/v5/xverif/gen"
	"github.com/evanphx/json-patch/v5/xverif/ref"
	"pgregory.net/rapid"
)

// Case: two byte strings and an option word. Every entry point is called with
// them in every role.
type Case struct {
	Pkg    string `json:"package"` // "v5" or "legacy"
	A      []byte `json:"a"`       // document / first argument
	B      []byte `json:"b"`       // patch / second argument
	Bits   uint8  `json:"option_bits"`
	Limit  int64  `json:"limit"`
	Indent string `json:"indent"`
}

func (c Case) opts() *jp.ApplyOptions {
	o := jp.NewApplyOptions()
	o.SupportNegativeIndices = c.Bits&1 != 0
	o.AllowMissingPathOnRemove = c.Bits&2 != 0
	o.EnsurePathExistsOnAdd = c.Bits&4 != 0
	o.EscapeHTML = c.Bits&8 != 0
	o.AccumulatedCopySizeLimit = c.Limit
	return o
}

// bigIndex: a numeric reference token above 10^4 (outside the stated domain
// under EnsurePathExistsOnAdd, whose padding is quadratic).
func bigIndex(path string) bool {
	for _, tk := range strings.Split(path, "/") {
		d := strings.TrimLeft(tk, "+-")
		if d == "" || strings.Trim(d, "0123456789") != "" {
			continue
		}
		if n, err := strconv.Atoi(d); err != nil || n > 10000 {
			return true
		}
	}
	return false
}

func drawOpts(t *rapid.T, c *Case) {
	c.Bits = uint8(gen.Uniform(t, 0, 15, "bits"))
	c.Limit = rapid.SampledFrom([]int64{0, 0, 1, 10, 1000, -1}).Draw(t, "limit")
	c.Indent = rapid.SampledFrom([]string{"", "", " ", "\t", "  ", "x", "\n"}).Draw(t, "indent")
}

func drawBytes(pkg string) func(*rapid.T) Case {
	return func(t *rapid.T) Case {
		c := Case{Pkg: pkg, A: gen.Bytes().Draw(t, "a")}
		switch gen.Uniform(t, 0, 7, "bk") {
		case 0, 1:
			c.B = append([]byte{}, c.A...)
		case 2, 3, 4:
			// a patch-shaped text, sometimes damaged
			c.B = []byte(gen.LoosePatch(t, nil).Text(false))
			if len(c.B) > 2 && gen.OneIn(t, 3, "damage") {
				i := rapid.IntRange(0, len(c.B)-1).Draw(t, "di")
				switch gen.Uniform(t, 0, 2, "dm") {
				case 0:
					c.B = c.B[:i]
				case 1:
					c.B[i] = rapid.SampledFrom(gen.Alphabet).Draw(t, "dc")
				case 2:
					c.B = append(c.B[:i:i], c.B[i+1:]...)
				}
			}
		default:
			c.B = gen.Bytes().Draw(t, "b")
		}
		poison(t, &c)
		drawOpts(t, &c)
		return c
	}
}

// poison: one case in four gets a run of hostile bytes inside a string
// literal of either text, and/or whitespace around the texts.
func poison(t *rapid.T, c *Case) {
	if gen.OneIn(t, 4, "poison") {
		if rapid.Bool().Draw(t, "pwhich") {
			c.A = gen.PoisonStrings(t, c.A, "pa")
		} else {
			c.B = gen.PoisonStrings(t, c.B, "pb")
		}
	}
	if gen.OneIn(t, 6, "pad") {
		ws := rapid.SampledFrom([]string{" ", "\n", "\r", "\t", "\r\n", " \r ", "\n\n", "\t \r"}).Draw(t, "ws")
		switch gen.Uniform(t, 0, 2, "padwhere") {
		case 0:
			c.A = append([]byte(ws), c.A...)
		case 1:
			c.B = append([]byte(ws), c.B...)
		default:
			c.A = append(c.A, ws...)
		}
	}
}

func drawStruct(pkg string) func(*rapid.T) Case {
	return func(t *rapid.T) Case {
		c := Case{Pkg: pkg}
		var doc *ref.V
		switch gen.Uniform(t, 0, 9, "dk") {
		case 0:
			c.A = []byte(rapid.SampledFrom(gen.HostileConsts).Draw(t, "dconst"))
		case 1:
			if gen.OneIn(t, 3, "deep") {
				c.A = []byte(gen.Deep(rapid.SampledFrom([]int{100, 400, 1200}).Draw(t, "depth"), gen.Uniform(t, 0, 2, "dkind")))
				break
			}
			fallthrough
		default:
			doc = gen.HostileValue(3).Draw(t, "doc")
			c.A = []byte(doc.Text(false))
		}
		var patch *ref.V
		if gen.OneIn(t, 3, "calm") && doc != nil && doc.IsContainer() && !doc.HasDup() {
			// a deep-running state-aware sequence, with root replacements
			g := gen.NewOpGen(true).Calm()
			g.Legacy = pkg == "legacy"
			ops := g.Seq(t, doc, ref.Opts{Neg: true}, 0, 8, 2)
			patch = ref.OpsTree(ops)
		} else {
			patch = gen.LoosePatch(t, doc)
		}
		// sometimes replace the root first (by object, array or null)
		if gen.OneIn(t, 5, "rootrepl") {
			rv := rapid.SampledFrom([]*ref.V{ref.Null(), ref.Obj(), ref.Arr(), ref.Arr(ref.Null()), ref.ObjOf("a", ref.Null())}).Draw(t, "rv")
			kind := rapid.SampledFrom([]string{"replace", "add"}).Draw(t, "rk")
			if pkg == "legacy" {
				kind = "replace"
			}
			first := ref.ObjOf("op", ref.Str(kind), "path", ref.Str(""), "value", rv)
			patch.Arr = append([]*ref.V{first}, patch.Arr...)
		}
		c.B = []byte(patch.Text(false))
		poison(t, &c)
		drawOpts(t, &c)
		return c
	}
}

// calls lists what ran, for the evidence classes.
type tally struct {
	past int // calls whose input got past the function's validity gate
}

func checkV5(c Case, tl *tally) error {
	o := c.opts()
	aOK, bOK := ref.Valid(c.A), ref.Valid(c.B)
	// DecodePatch(B) then Apply*(A); accessors on every accepted operation
	var p jp.Patch
	var err error
	if pn := ev.Safe(func() { p, err = jp.DecodePatch(c.B) }); pn != nil {
		return fmt.Errorf("DecodePatch: %w", pn)
	}
	if err == nil {
		if pn := ev.Safe(func() {
			for _, op := range p {
				op.Kind()
				op.Path()
				op.From()
				op.ValueInterface()
			}
		}); pn != nil {
			return fmt.Errorf("Operation accessors: %w", pn)
		}
		skip := false
		if o.EnsurePathExistsOnAdd {
			for _, op := range p {
				if pth, _ := op.Path(); bigIndex(pth) {
					skip = true
				}
			}
		}
		if !skip {
			if aOK {
				tl.past++
			}
			if pn := ev.Safe(func() { p.ApplyIndentWithOptions(c.A, c.Indent, o) }); pn != nil {
				return fmt.Errorf("ApplyIndentWithOptions(%+v): %w", *o, pn)
			}
			if pn := ev.Safe(func() { p.ApplyWithOptions(c.A, o) }); pn != nil {
				return fmt.Errorf("ApplyWithOptions(%+v): %w", *o, pn)
			}
		}
		if pn := ev.Safe(func() { p.Apply(c.A) }); pn != nil {
			return fmt.Errorf("Apply: %w", pn)
		}
		if pn := ev.Safe(func() { p.ApplyIndent(c.A, c.Indent) }); pn != nil {
			return fmt.Errorf("ApplyIndent: %w", pn)
		}
	}
	// and the other way round (A as the patch) - cheap, reaches DecodePatch with document-like texts
	if pn := ev.Safe(func() {
		if q, err := jp.DecodePatch(c.A); err == nil {
			q.Apply(c.B)
		}
	}); pn != nil {
		return fmt.Errorf("DecodePatch(a).Apply(b): %w", pn)
	}
	if aOK && bOK {
		tl.past++
	}
	for name, f := range map[string]func(){
		"Equal(a,b)":             func() { jp.Equal(c.A, c.B) },
		"Equal(b,a)":             func() { jp.Equal(c.B, c.A) },
		"MergePatch(a,b)":        func() { jp.MergePatch(c.A, c.B) },
		"MergePatch(b,a)":        func() { jp.MergePatch(c.B, c.A) },
		"MergeMergePatches(a,b)": func() { jp.MergeMergePatches(c.A, c.B) },
		"MergeMergePatches(b,a)": func() { jp.MergeMergePatches(c.B, c.A) },
		"CreateMergePatch(a,b)":  func() { jp.CreateMergePatch(c.A, c.B) },
		"CreateMergePatch(b,a)":  func() { jp.CreateMergePatch(c.B, c.A) },
	} {
		if pn := ev.Safe(f); pn != nil {
			return fmt.Errorf("%s: %w", name, pn)
		}
	}
	return nil
}

func checkLegacy(c Case, tl *tally) error {
	aOK, bOK := ref.Valid(c.A), ref.Valid(c.B)
	oldNeg, oldLim := jl.SupportNegativeIndices, jl.AccumulatedCopySizeLimit
	jl.SupportNegativeIndices = c.Bits&1 != 0
	jl.AccumulatedCopySizeLimit = c.Limit
	defer func() { jl.SupportNegativeIndices, jl.AccumulatedCopySizeLimit = oldNeg, oldLim }()
	var p jl.Patch
	var err error
	if pn := ev.Safe(func() { p, err = jl.DecodePatch(c.B) }); pn != nil {
		return fmt.Errorf("legacy DecodePatch: %w", pn)
	}
	if err == nil {
		if aOK {
			tl.past++
		}
		if pn := ev.Safe(func() {
			for _, op := range p {
				op.Kind()
				op.Path()
				op.From()
				op.ValueInterface()
			}
		}); pn != nil {
			return fmt.Errorf("legacy Operation accessors: %w", pn)
		}
		if pn := ev.Safe(func() { p.Apply(c.A) }); pn != nil {
			return fmt.Errorf("legacy Apply: %w", pn)
		}
		if pn := ev.Safe(func() { p.ApplyIndent(c.A, c.Indent) }); pn != nil {
			return fmt.Errorf("legacy ApplyIndent: %w", pn)
		}
	}
	if pn := ev.Safe(func() {
		if q, err := jl.DecodePatch(c.A); err == nil {
			q.Apply(c.B)
		}
	}); pn != nil {
		return fmt.Errorf("legacy DecodePatch(a).Apply(b): %w", pn)
	}
	if aOK && bOK {
		tl.past++
	}
	for name, f := range map[string]func(){
		"Equal(a,b)":             func() { jl.Equal(c.A, c.B) },
		"Equal(b,a)":             func() { jl.Equal(c.B, c.A) },
		"MergePatch(a,b)":        func() { jl.MergePatch(c.A, c.B) },
		"MergePatch(b,a)":        func() { jl.MergePatch(c.B, c.A) },
		"MergeMergePatches(a,b)": func() { jl.MergeMergePatches(c.A, c.B) },
		"MergeMergePatches(b,a)": func() { jl.MergeMergePatches(c.B, c.A) },
		"CreateMergePatch(a,b)":  func() { jl.CreateMergePatch(c.A, c.B) },
		"CreateMergePatch(b,a)":  func() { jl.CreateMergePatch(c.B, c.A) },
	} {
		if pn := ev.Safe(f); pn != nil {
			return fmt.Errorf("legacy %s: %w", name, pn)
		}
	}
	return nil
}

func check(c Case) ev.Verdict {
	if len(c.A) > 1<<20 || len(c.B) > 1<<20 {
		return ev.Excluded("input above 1 MiB")
	}
	var tl tally
	var err error
	switch c.Pkg {
	case "v5":
		err = checkV5(c, &tl)
	case "legacy":
		err = checkLegacy(c, &tl)
	default:
		return ev.Excluded("unknown package")
	}
	v := ev.Verdict{Classes: []string{c.Pkg, fmt.Sprintf("past-gate=%d", tl.past)}, NonTrivial: tl.past > 0, Err: err}
	return v
}

const (
	ruleBytes  = "two byte strings, each arbitrary bytes / bytes over the JSON alphabet / a hostile valid document (null root, nulls in arrays, empty and duplicate keys, nesting to 10 001) possibly truncated, flipped, with a byte deleted or duplicated or trailing data / a constant that broke the library before; every exported entry point is called with them in every role (DecodePatch then Apply, ApplyIndent, ApplyWithOptions, ApplyIndentWithOptions and the Operation accessors; Equal, MergePatch, MergeMergePatches, CreateMergePatch in both argument orders) x 16 option combinations x limits {0,1,10,1000,-1} x indent strings; oracle: every call returns (recover around the call only; a per-case watchdog nominates hangs); non-trivial = some call got past its validity gate (patch decoded and document well-formed, or both texts well-formed)"
	ruleStruct = "hostile document x patch that DecodePatch accepts: loose grammar (paths from hostile tokens such as '', '-', '+1', '01', '~', '~2', 99999999999999999999, or state-aware paths; values with nulls, empty and duplicate keys; test with and without value) or a deep-running state-aware sequence; one in five prefixed with a replacement of the root by {}, [], [null], {\"a\":null} or null; same calls, options and oracle as the byte-level unit (array indices above 10^4 are skipped under EnsurePathExistsOnAdd)"
)

var (
	bytesV5      = ev.Unit[Case]{Name: "bytes-v5", Rule: ruleBytes, Draw: drawBytes("v5"), Check: check, Guard: true}
	structV5     = ev.Unit[Case]{Name: "struct-v5", Rule: ruleStruct, Draw: drawStruct("v5"), Check: check, Guard: true}
	bytesLegacy  = ev.Unit[Case]{Name: "bytes-legacy", Rule: "staged legacy package (options through its package variables): " + ruleBytes, Draw: drawBytes("legacy"), Check: check, Guard: true}
	structLegacy = ev.Unit[Case]{Name: "struct-legacy", Rule: "staged legacy package: " + ruleStruct, Draw: drawStruct("legacy"), Check: check, Guard: true}
)

func TestPropBytes(t *testing.T)        { ev.RunProp(t, "C04", bytesV5) }
func TestPropStruct(t *testing.T)       { ev.RunProp(t, "C04", structV5) }
func TestPropBytesLegacy(t *testing.T)  { ev.RunProp(t, "C04", bytesLegacy) }
func TestPropStructLegacy(t *testing.T) { ev.RunProp(t, "C04", structLegacy) }
func TestReplay(t *testing.T) {
	r := bytesV5.Replayer()
	ev.Replay(t, map[string]ev.Replayer{deepUnit.Name: deepUnit.Replayer(), bigUnit.Name: bigUnit.Replayer(), tableUnit.Name: r, bytesV5.Name: r, structV5.Name: r, bytesLegacy.Name: r, structLegacy.Name: r, "fuzz-v5": r, "fuzz-legacy": r})
}

// ---------- deep nesting at the codec's limit ----------

// The library parses lazily and re-parses the remaining text at every level,
// so Equal/MergePatch/MergeMergePatches/Apply-with-test are quadratic in the
// nesting depth (measured on the pinned tree too: ~8 s per call at depth
// 10 000). That is slow, not a hang; the deep unit therefore runs one call per
// case with its own timing, and the quick tier uses the full depth only for
// the calls that are linear.
type DeepCase struct {
	Pkg   string `json:"package"`
	Call  string `json:"call"`
	Kind  int    `json:"kind"` // 0 arrays, 1 objects, 2 alternating
	Depth int    `json:"depth"`
}

var deepCalls = []string{"Decode+Apply", "Apply-test-root", "Equal", "MergePatch", "MergeMergePatches", "CreateMergePatch"}
var slowCalls = map[string]bool{"Apply-test-root": true, "Equal": true, "MergePatch": true, "MergeMergePatches": true}

func checkDeep(c DeepCase) ev.Verdict {
	if c.Depth < 1 || c.Depth > 10001 || c.Kind < 0 || c.Kind > 4 {
		return ev.Excluded("depth/kind outside the unit")
	}
	a := []byte(gen.Deep(c.Depth, c.Kind))
	wrap := []byte(`{"x":` + string(a) + `}`)
	if c.Kind == 0 {
		wrap = []byte(`[` + string(a) + `]`)
	}
	_ = wrap
	if c.Kind >= 3 {
		a = []byte(`{"x":` + string(a) + `}`) // as a member value: the shape CreateMergePatch compares element by element
	}
	var f func()
	v5 := c.Pkg == "v5"
	switch c.Call {
	case "Decode+Apply":
		patch := []byte(`[{"op":"add","path":"/zz","value":` + string(a) + `},{"op":"remove","path":"/zz"}]`)
		f = func() {
			if v5 {
				if p, err := jp.DecodePatch(patch); err == nil {
					p.Apply([]byte(`{"q":1}`))
					p.Apply(a)
				}
				if p, err := jp.DecodePatch(a); err == nil {
					p.Apply(a)
				}
			} else {
				if p, err := jl.DecodePatch(patch); err == nil {
					p.Apply([]byte(`{"q":1}`))
					p.Apply(a)
				}
				if p, err := jl.DecodePatch(a); err == nil {
					p.Apply(a)
				}
			}
		}
	case "Apply-test-root":
		patch := []byte(`[{"op":"test","path":"","value":` + string(a) + `}]`)
		f = func() {
			if v5 {
				if p, err := jp.DecodePatch(patch); err == nil {
					p.Apply(a)
				}
			} else if p, err := jl.DecodePatch(patch); err == nil {
				p.Apply(a)
			}
		}
	case "Equal":
		f = func() {
			if v5 {
				jp.Equal(a, a)
			} else {
				jl.Equal(a, a)
			}
		}
	case "MergePatch":
		f = func() {
			if v5 {
				jp.MergePatch(a, a)
			} else {
				jl.MergePatch(a, a)
			}
		}
	case "MergeMergePatches":
		f = func() {
			if v5 {
				jp.MergeMergePatches(a, a)
			} else {
				jl.MergeMergePatches(a, a)
			}
		}
	case "CreateMergePatch":
		f = func() {
			if v5 {
				jp.CreateMergePatch(a, a)
			} else {
				jl.CreateMergePatch(a, a)
			}
		}
	default:
		return ev.Excluded("unknown call")
	}
	v := ev.Verdict{Classes: []string{c.Pkg, c.Call, fmt.Sprintf("depth=%d", c.Depth)}, NonTrivial: true}
	if pn := ev.Safe(f); pn != nil {
		v.Err = fmt.Errorf("%s %s at nesting depth %d: %w", c.Pkg, c.Call, c.Depth, pn)
	}
	return v
}

var deepUnit = ev.Unit[DeepCase]{
	Name:  "deep-nesting",
	Rule:  "each entry point, v5 and legacy, once per (arrays, objects, alternating) x nesting depth around the codec's limit (and 24 / 48 / 400 levels with a sibling element or member at every level, where work that doubles per level explodes): 9 999, 10 000 and 10 001 levels for the linear calls (DecodePatch+Apply with the deep text as document, as add value and as the patch itself; CreateMergePatch); the quadratic calls (Equal, MergePatch, MergeMergePatches, test of the root) at depth 2 500 in the quick tier and at the full depths in the thorough tier; oracle: returns without panic (a case that exceeds the watchdog is nominated as a hang); every case non-trivial; the list is enumerated completely",
	Check: checkDeep, Guard: true,
}

func deepCases(tier string) []DeepCase {
	var out []DeepCase
	for _, pkg := range []string{"v5", "legacy"} {
		for _, call := range deepCalls {
			for kind := 0; kind <= 2; kind++ {
				depths := []int{9999, 10000, 10001}
				if slowCalls[call] && tier != "thorough" {
					depths = []int{2500}
				}
				for _, d := range depths {
					out = append(out, DeepCase{pkg, call, kind, d})
				}
			}
			// moderately deep, but with a sibling at every level: work that doubles per level
			// (a comparison that visits an element twice) explodes long before depth 100
			for kind := 3; kind <= 4; kind++ {
				for _, d := range []int{24, 48, 400} {
					out = append(out, DeepCase{pkg, call, kind, d})
				}
			}
		}
	}
	return out
}

func TestDeep(t *testing.T) {
	all := deepCases(os.Getenv("VERIF_TIER"))
	k, n := ev.Shard()
	var mine []DeepCase
	for i, c := range all {
		if i%n == k {
			mine = append(mine, c)
		}
	}
	ev.RunCases(t, "C04", deepUnit, mine)
}

// ---------- native fuzz targets (thorough tier) ----------

func addSeeds(f *testing.F) {
	docs := []string{`{"a":[1,null,{"b":2}]}`, `[null]`, ` [1]`, `{"a":{"b":{"c":1}},"d":"<x>"}`, `null`, `{}`}
	patches := []string{
		`[{"op":"test","path":"/a/1","value":null},{"op":"copy","from":"/a","path":"/c"},{"op":"move","from":"/a/2","path":"/d"},{"op":"replace","path":"","value":null},{"op":"add","path":"/x/0/y","value":[null]},{"op":"remove","path":"/a/-1"}]`,
		`[{"op":"add","path":"","value":{"a":null}},{"op":"test","path":"","value":{"a":null}}]`,
		`[{"op":"add","path":"/m","value":null},{"op":"copy","from":"/m","path":"/0"},{"op":"add","path":"/0/0","value":false}]`,
		`[]`, `{"a":[null,{"b":null}],"c":null}`, `[{"a":1}]`,
	}
	for _, s := range gen.HostileConsts {
		docs = append(docs, s)
	}
	docs = append(docs, "{\"\xff\xff\xff\xff\xff\xff\xff\":\"\xed\xa0\x80\xed\xa0\x80\xed\xa0\x80\xed\xa0\x80\"}", "\r{\"a\":1}", "\r[1]")
	patches = append(patches, "[{\"op\":\"add\",\"path\":\"/\xff\xff\xff\xff\xff\xff\",\"value\":\"\x80\x80\x80\x80\x80\x80\x80\x80\"}]")
	for i, d := range docs {
		for j, p := range patches {
			f.Add([]byte(d), []byte(p), uint8((i*7+j*3)%16), int64([]int{0, 1, 1000}[(i+j)%3]), uint8(j%3))
		}
	}
}

func fuzzTarget(pkg string) func(t *testing.T, a, b []byte, bits uint8, limit int64, ind uint8) {
	return func(t *testing.T, a, b []byte, bits uint8, limit int64, ind uint8) {
		c := Case{Pkg: pkg, A: a, B: b, Bits: bits % 16, Limit: limit, Indent: []string{"", " ", "\t"}[ind%3]}
		if v := check(c); v.Err != nil && v.Excluded == "" {
			ev.ReportFuzzFailure("C04", "fuzz-"+pkg, c, v.Err)
			t.Fatalf("C04 violated: %v", v.Err)
		}
	}
}

func FuzzV5(f *testing.F)     { addSeeds(f); f.Fuzz(fuzzTarget("v5")) }
func FuzzLegacy(f *testing.F) { addSeeds(f); f.Fuzz(fuzzTarget("legacy")) }

// ---------- enumerated table of operation shapes ----------

// tableCases enumerates every single-operation patch over small pools of
// member shapes (each of op/path/from/value present with several values,
// absent, or null - whatever DecodePatch makes of it), alone and after a
// replacement of the root, against a pool of small documents. Violations
// confined to one shape (a missing member on one operation kind at the root
// path) are reached by construction rather than by luck.
func tableCases(pkg string) []Case {
	ops := []string{`"add"`, `"remove"`, `"replace"`, `"move"`, `"copy"`, `"test"`, `"bogus"`}
	paths := []string{"", `null`, `""`, `"/a"`, `"/a/b"`, `"/0"`, `"/-"`, `"/zz"`, `"/a/0"`, `"/-9223372036854775808"`, `"/a/-9223372036854775808/b"`, `"/"`, `"/a/"`, `"//"`}
	froms := []string{"", `null`, `""`, `"/a"`, `"/0"`, `"/zz"`, `"/a/-9223372036854775808"`, `"/"`}
	values := []string{"", `null`, `1`, `"s"`, `{}`, `{"b":null}`, `[]`, `[null]`}
	docs := []string{`{}`, `{"a":1}`, `{"a":{"b":1}}`, `{"a":null}`, `{"a":[1]}`, `[]`, `[1]`, `[null]`, `[[1]]`, `[{"b":1}]`, `null`, ``}
	prefixes := []string{"",
		`{"op":"replace","path":"","value":null}`, `{"op":"replace","path":"","value":{}}`, `{"op":"replace","path":"","value":[]}`,
		`{"op":"replace","path":"","value":[null]}`, `{"op":"replace","path":"","value":{"a":null}}`, `{"op":"add","path":"/a","value":null}`}
	bits := []uint8{15, 0, 5, 10}
	if pkg == "legacy" {
		bits = []uint8{1, 0}
	}
	var out []Case
	for _, op := range ops {
		for _, p := range paths {
			for _, f := range froms {
				for _, v := range values {
					o := `{"op":` + op
					if p != "" {
						o += `,"path":` + p
					}
					if f != "" {
						o += `,"from":` + f
					}
					if v != "" {
						o += `,"value":` + v
					}
					o += "}"
					for pi, pre := range prefixes {
						patch := "[" + o + "]"
						if pre != "" {
							patch = "[" + pre + "," + o + "]"
						}
						for di, d := range docs {
							if pre != "" && di%3 != pi%3 {
								continue // after a root replacement the original document hardly matters
							}
							for _, b := range bits {
								out = append(out, Case{Pkg: pkg, A: []byte(d), B: []byte(patch), Bits: b, Limit: 0})
							}
						}
					}
				}
			}
		}
	}
	return out
}

var tableUnit = ev.Unit[Case]{
	Name:  "operation-table",
	Rule:  "complete table, v5 and legacy: one operation built from op in {add, remove, replace, move, copy, test, bogus} x path in {absent, null, \"\", /a, /a/b, /0, /-, /zz, /a/0} x from in {absent, null, \"\", /a, /0, /zz} x value in {absent, null, 1, \"s\", {}, {\"b\":null}, [], [null]}, alone or after one of 6 root replacements / a null member, against 12 small documents (objects, arrays, null, empty) x option words {all on, all off, two mixed} (legacy: negative indices on/off); same calls and oracle as the byte-level unit; non-trivial = the patch decoded and the document is well-formed; enumerated completely",
	Check: check, Guard: false,
}

func TestTable(t *testing.T) {
	k, n := ev.Shard()
	var mine []Case
	i := 0
	for _, pkg := range []string{"v5", "legacy"} {
		for _, c := range tableCases(pkg) {
			if i%n == k {
				mine = append(mine, c)
			}
			i++
		}
	}
	ev.RunCases(t, "C04", tableUnit, mine)
}

// ---------- big inputs: thousands of elements, members and operations ----------

// BigCase: one entry point on one big generated input. Nothing here is near
// the watchdog on the unchanged tree (the slowest case takes a few seconds);
// an accidental quadratic-to-cubic step or a per-element allocation blow-up
// in a loop over elements, members or operations shows as a nominated hang.
type BigCase struct {
	Pkg   string `json:"package"`
	Shape string `json:"shape"` // array, object, string, matrix
	N     int    `json:"n"`
	Call  string `json:"call"`
}

func bigDoc(shape string, n int) []byte {
	var sb strings.Builder
	switch shape {
	case "array":
		sb.WriteByte('[')
		for i := 0; i < n; i++ {
			if i > 0 {
				sb.WriteByte(',')
			}
			fmt.Fprintf(&sb, "%d", i)
		}
		sb.WriteByte(']')
	case "object":
		sb.WriteByte('{')
		for i := 0; i < n; i++ {
			if i > 0 {
				sb.WriteByte(',')
			}
			fmt.Fprintf(&sb, `"k%d":{"v":%d,"s":"x<y"}`, i, i)
		}
		sb.WriteByte('}')
	case "string":
		sb.WriteString(`{"s":"`)
		for i := 0; i < n; i++ {
			sb.WriteString("abcdefgh<&>\\n\\u00e9 ")
		}
		sb.WriteString(`","t":[1]}`)
	case "matrix":
		sb.WriteByte('[')
		for i := 0; i < n/50; i++ {
			if i > 0 {
				sb.WriteByte(',')
			}
			sb.WriteByte('[')
			for j := 0; j < 50; j++ {
				if j > 0 {
					sb.WriteByte(',')
				}
				fmt.Fprintf(&sb, `{"i":%d,"j":%d}`, i, j)
			}
			sb.WriteByte(']')
		}
		sb.WriteByte(']')
	}
	return []byte(sb.String())
}

func bigPatch(shape, call string, n int) []byte {
	var sb strings.Builder
	sb.WriteByte('[')
	m := n
	if m > 3000 {
		m = 3000
	}
	for i := 0; i < m; i++ {
		if i > 0 {
			sb.WriteByte(',')
		}
		switch call {
		case "append":
			if shape == "object" {
				fmt.Fprintf(&sb, `{"op":"add","path":"/n%d","value":%d}`, i, i)
			} else {
				fmt.Fprintf(&sb, `{"op":"add","path":"/-","value":%d}`, i)
			}
		case "remove-front":
			if shape == "object" {
				fmt.Fprintf(&sb, `{"op":"remove","path":"/k%d"}`, i)
			} else {
				sb.WriteString(`{"op":"remove","path":"/0"}`)
			}
		case "move":
			if shape == "object" {
				fmt.Fprintf(&sb, `{"op":"move","from":"/k%d","path":"/m%d"}`, i, i)
			} else {
				sb.WriteString(`{"op":"move","from":"/0","path":"/-"}`)
			}
		case "copy-test":
			if shape == "object" {
				fmt.Fprintf(&sb, `{"op":"copy","from":"/k%d","path":"/c%d"},{"op":"test","path":"/c%d/v","value":%d}`, i, i, i, i)
			} else {
				fmt.Fprintf(&sb, `{"op":"copy","from":"/%d","path":"/0"},{"op":"test","path":"/0","value":%d}`, i+1, i)
			}
		}
	}
	sb.WriteByte(']')
	return []byte(sb.String())
}

var bigCalls = []string{"append", "remove-front", "move", "copy-test", "apply-empty-indent", "test-root", "Equal", "MergePatch", "MergeMergePatches", "CreateMergePatch"}

func checkBig(c BigCase) ev.Verdict {
	if c.N < 1 || c.N > 200000 {
		return ev.Excluded("size outside the unit")
	}
	doc := bigDoc(c.Shape, c.N)
	if len(doc) == 0 {
		return ev.Excluded("unknown shape")
	}
	v5 := c.Pkg == "v5"
	apply := func(patch []byte, indent string) {
		if v5 {
			if p, err := jp.DecodePatch(patch); err == nil {
				p.ApplyIndent(doc, indent)
			}
		} else if p, err := jl.DecodePatch(patch); err == nil {
			p.ApplyIndent(doc, indent)
		}
	}
	var f func()
	switch c.Call {
	case "append", "remove-front", "move", "copy-test":
		if (c.Shape == "string" || c.Shape == "matrix") && c.Call != "append" {
			return ev.Excluded("call not defined for this shape")
		}
		patch := bigPatch(c.Shape, c.Call, c.N)
		if c.Shape == "string" {
			patch = []byte(`[{"op":"copy","from":"/s","path":"/t/0"},{"op":"test","path":"/t/0","value":"x"}]`)
		}
		f = func() { apply(patch, "") }
	case "apply-empty-indent":
		f = func() { apply([]byte(`[]`), "\t") }
	case "test-root":
		patch := []byte(`[{"op":"test","path":"","value":` + string(doc) + `}]`)
		f = func() { apply(patch, "") }
	case "Equal":
		other := append([]byte(" "), doc...)
		f = func() {
			if v5 {
				jp.Equal(doc, other)
			} else {
				jl.Equal(doc, other)
			}
		}
	case "MergePatch", "MergeMergePatches":
		f = func() {
			switch {
			case v5 && c.Call == "MergePatch":
				jp.MergePatch(doc, doc)
			case v5:
				jp.MergeMergePatches(doc, doc)
			case c.Call == "MergePatch":
				jl.MergePatch(doc, doc)
			default:
				jl.MergeMergePatches(doc, doc)
			}
		}
	case "CreateMergePatch":
		other := bigDoc(c.Shape, c.N-1)
		if c.Shape != "object" {
			other = doc
		}
		f = func() {
			if v5 {
				jp.CreateMergePatch(doc, other)
			} else {
				jl.CreateMergePatch(doc, other)
			}
		}
	default:
		return ev.Excluded("unknown call")
	}
	v := ev.Verdict{Classes: []string{c.Pkg, c.Shape, c.Call, fmt.Sprintf("n=%d", c.N)}, NonTrivial: true}
	if pn := ev.Safe(f); pn != nil {
		v.Err = fmt.Errorf("%s %s on a big %s (n=%d): %w", c.Pkg, c.Call, c.Shape, c.N, pn)
	}
	return v
}

var bigUnit = ev.Unit[BigCase]{
	Name:  "big-inputs",
	Rule:  "each entry point, v5 and legacy, on big generated inputs: an array of n numbers, an object of n members, a string of 20n bytes, an n/50 x 50 matrix of objects (n = 2 000 quick, also 20 000 thorough) with patches of up to 3 000 operations (appends, removes at the front, moves, copy+test), the empty patch with indentation, a test of the root against the document itself, Equal against a re-spelling, MergePatch / MergeMergePatches of the document with itself, CreateMergePatch against a near copy; oracle: returns without panic and well inside the watchdog (a nominated hang is confirmed under a CPU-time limit); every case non-trivial; the list is enumerated completely",
	Check: checkBig, Guard: true,
}

func bigCases(tier string) []BigCase {
	sizes := []int{2000}
	if tier == "thorough" {
		sizes = []int{2000, 20000}
	}
	var out []BigCase
	for _, pkg := range []string{"v5", "legacy"} {
		for _, shape := range []string{"array", "object", "string", "matrix"} {
			for _, call := range bigCalls {
				for _, n := range sizes {
					out = append(out, BigCase{pkg, shape, n, call})
				}
			}
		}
	}
	return out
}

func TestBig(t *testing.T) {
	all := bigCases(os.Getenv("VERIF_TIER"))
	k, n := ev.Shard()
	var mine []BigCase
	for i, c := range all {
		if i%n == k {
			mine = append(mine, c)
		}
	}
	ev.RunCases(t, "C04", bigUnit, mine)
}
