// C12 — the accumulated copy-size limit bounds growth caused by copy
// (per-call option in v5, package default in v5 and in the legacy package).
package c12

import (
	"errors"
	"fmt"
	"testing"

	jl "github.com/evanphx/json-patch"
	jp "github.com/evanphx/json-patch/v5"
	"github.com/evanphx/json-patch/v5/xverif/ev"
	"github.com/evanphx/json-patch/v5/xverif/gen"
	"github.com/evanphx/json-patch/v5/xverif/lib"
	"github.com/evanphx/json-patch/v5/xverif/ref"
	"pgregory.net/rapid"
)

type Case struct {
	Doc   string `json:"doc"`
	Patch string `json:"patch"`
	Esc   bool   `json:"escape_html"`
	Limit int64  `json:"limit"`
	// Via: "option" (ApplyOptions.AccumulatedCopySizeLimit), "v5-default"
	// (package variable + Apply) or "legacy-default" (root package).
	Via string `json:"via"`
	// PkgDefault: value of the package variable AccumulatedCopySizeLimit while an
	// "option" case runs (the per-call option must win, a per-call 0 must disable the check).
	PkgDefault int64 `json:"package_default,omitempty"`
}

func drawVia(via string) func(t *rapid.T) Case {
	return func(t *rapid.T) Case {
		doc := gen.Default.Root().Draw(t, "doc")
		esc := true
		if via == "option" {
			esc = rapid.Bool().Draw(t, "esc")
		}
		g := gen.NewOpGen(true)
		g.NearMiss, g.TestMismatch = 0, 0
		g.Kinds = []string{"copy", "copy", "copy", "copy", "add", "remove", "replace", "move", "test"}
		if via == "legacy-default" {
			g.NoRootOps = true
			g.Kinds = []string{"copy", "copy", "copy", "copy", "add", "remove", "replace", "move"}
		}
		ro := ref.Opts{Neg: true, Esc: esc}
		st := &ref.State{Root: doc.Clone()}
		var ops []ref.Op
		var totals []int64
		n := gen.Uniform(t, 1, 7, "nops")
		for i := 0; i < n; i++ {
			op := g.Next(t, st.Root, i)
			trial := &ref.State{Root: st.Root.Clone(), Lo: st.Lo, Hi: st.Hi}
			r := ref.Step(trial, op, ro)
			if r.Cause != ref.COK {
				continue // keep applicable operations only
			}
			st = trial
			ops = append(ops, op)
			if r.Copied != nil {
				totals = append(totals, st.Lo, st.Hi)
			}
		}
		var limit int64
		if len(totals) > 0 && !gen.OneIn(t, 6, "zero") {
			limit = totals[rapid.IntRange(0, len(totals)-1).Draw(t, "tot")] + int64(gen.Uniform(t, -2, 2, "delta"))
			if limit < 1 {
				limit = 1
			}
		} else if !gen.OneIn(t, 3, "zero2") {
			limit = int64(rapid.IntRange(1, 60).Draw(t, "lim"))
		}
		c := Case{Doc: doc.Text(esc), Patch: ref.OpsText(ops, esc), Esc: esc, Limit: limit, Via: via}
		if via == "option" && gen.OneIn(t, 3, "pkgdef") {
			c.PkgDefault = rapid.SampledFrom([]int64{1, 2, 5, 1000}).Draw(t, "pkgdefv")
		}
		return c
	}
}

type outcome struct {
	out   []byte
	err   error
	isAce bool
}

func run(c Case) (o outcome, perr error) {
	switch c.Via {
	case "option":
		r := lib.Apply(c.Doc, c.Patch, lib.Options{Neg: true, Esc: c.Esc, Limit: c.Limit})
		if r.Panic != nil {
			return o, r.Panic
		}
		if r.DecodeErr != nil {
			return o, fmt.Errorf("DecodePatch: %v", r.DecodeErr)
		}
		o.out, o.err = r.Out, r.Err
		var ace *jp.AccumulatedCopySizeError
		o.isAce = errors.As(r.Err, &ace)
	case "v5-default":
		perr = ev.Safe(func() {
			p, err := jp.DecodePatch([]byte(c.Patch))
			if err != nil {
				o.err = fmt.Errorf("DecodePatch: %v", err)
				return
			}
			old := jp.AccumulatedCopySizeLimit
			jp.AccumulatedCopySizeLimit = c.Limit
			defer func() { jp.AccumulatedCopySizeLimit = old }()
			o.out, o.err = p.Apply([]byte(c.Doc))
			// the other option-less entry point reads the same package default at the same moment
			iout, ierr := p.ApplyIndent([]byte(c.Doc), " ")
			var a1, a2 *jp.AccumulatedCopySizeError
			switch {
			case (o.err == nil) != (ierr == nil) || errors.As(o.err, &a1) != errors.As(ierr, &a2):
				o.err = fmt.Errorf("Apply and ApplyIndent disagree under the package default %d: Apply -> %v, ApplyIndent -> %v", c.Limit, o.err, ierr)
				o.out = nil
			case ierr == nil:
				x, e1 := ref.Parse(o.out)
				y, e2 := ref.Parse(iout)
				if e1 != nil || e2 != nil || !ref.Equal(x, y) {
					o.err = fmt.Errorf("Apply and ApplyIndent give different documents under the package default %d: %s vs %s", c.Limit, o.out, iout)
					o.out = nil
				}
			}
		})
		var ace *jp.AccumulatedCopySizeError
		o.isAce = errors.As(o.err, &ace)
	case "legacy-default":
		perr = ev.Safe(func() {
			p, err := jl.DecodePatch([]byte(c.Patch))
			if err != nil {
				o.err = fmt.Errorf("DecodePatch: %v", err)
				return
			}
			old := jl.AccumulatedCopySizeLimit
			jl.AccumulatedCopySizeLimit = c.Limit
			defer func() { jl.AccumulatedCopySizeLimit = old }()
			o.out, o.err = p.Apply([]byte(c.Doc))
		})
		var ace *jl.AccumulatedCopySizeError
		o.isAce = errors.As(o.err, &ace)
	default:
		return o, fmt.Errorf("unknown via %q", c.Via)
	}
	return o, perr
}

func check(c Case) ev.Verdict {
	doc, ops, why := lib.ParseCase(c.Doc, c.Patch)
	if why != "" {
		return ev.Excluded(why)
	}
	if c.Via != "option" && !c.Esc {
		return ev.Excluded("package defaults always escape HTML")
	}
	if doc.Text(c.Esc) != c.Doc || ref.OpsText(ops, c.Esc) != c.Patch {
		return ev.Excluded("spelling other than the encoder's own (sizes are defined on the output spelling)")
	}
	if c.Via == "legacy-default" {
		for _, op := range ops {
			if op.Op == "test" || op.Path == "" || (op.Op == "copy" && op.From == "") {
				return ev.Excluded("operation outside the legacy package's claims")
			}
		}
	}
	if c.Via == "option" && c.PkgDefault != 0 {
		// the package default is in force for every library call of this case; the per-call option must win
		old := jp.AccumulatedCopySizeLimit
		jp.AccumulatedCopySizeLimit = c.PkgDefault
		defer func() { jp.AccumulatedCopySizeLimit = old }()
	}
	ro := ref.Opts{Neg: true, Esc: c.Esc, Limit: c.Limit}
	want := ref.Apply(doc, ops, ro)
	got, perr := run(c)
	if want.OutOfDomain() {
		return ev.Excluded("out of domain: "+want.Res.Why, "ood")
	}
	if !want.OK() && want.Res.Cause != ref.CCopyLimit {
		return ev.Excluded("an operation is inapplicable for another reason (C08)")
	}
	if perr != nil {
		return ev.Verdict{Err: perr}
	}
	// classification for the evidence
	free := ref.Apply(doc, ops, ref.Opts{Neg: true, Esc: c.Esc})
	copies, near := 0, false
	{
		st := &ref.State{Root: doc.Clone()}
		for _, op := range ops {
			r := ref.Step(st, op, ref.Opts{Neg: true, Esc: c.Esc})
			if r.Cause != ref.COK {
				break
			}
			if r.Copied != nil {
				copies++
				if d := st.Lo - c.Limit; d >= -2 && d <= 2 {
					near = true
				}
			}
		}
	}
	_ = free
	v := ev.Verdict{Classes: []string{c.Via, fmt.Sprintf("esc=%v", c.Esc), fmt.Sprintf("copies=%d", min(copies, 4))}}
	v.NonTrivial = copies >= 2 && near && c.Limit > 0
	switch {
	case c.Limit == 0:
		v.Classes = append(v.Classes, "limit=0")
	case want.OK():
		v.Classes = append(v.Classes, "within-limit")
	default:
		v.Classes = append(v.Classes, "over-limit")
	}
	if c.Via == "option" {
		if err := reuseOptions(c, got); err != nil {
			v.Err = err
			return v
		}
	}
	if want.OK() {
		if got.err != nil {
			v.Err = fmt.Errorf("total stays within the limit %d (reference totals lo=%d) but Apply failed: %v", c.Limit, freeTotal(doc, ops, c.Esc), got.err)
			return v
		}
		out, err := ref.Parse(got.out)
		if err != nil || !ref.Equal(out, want.Doc) {
			v.Err = fmt.Errorf("result differs from the reference: %s want %s", got.out, want.Doc)
		}
		return v
	}
	if !got.isAce {
		v.Err = fmt.Errorf("copy %d pushes the total over the limit %d but Apply returned %v / %s", want.FailAt, c.Limit, got.err, got.out)
		return v
	}
	if got.out != nil {
		v.Err = fmt.Errorf("a patch stopped by the limit returned a document: %s", got.out)
	}
	return v
}

// reuseOptions: one ApplyOptions value used for a failing call (the same patch
// followed by a test that cannot pass, so that its copies run first) and then
// for the case's own patch must give what fresh options give: the total is
// per call, not per options value.
func reuseOptions(c Case, fresh outcome) error {
	var again outcome
	pn := ev.Safe(func() {
		o := lib.Options{Neg: true, Esc: c.Esc, Limit: c.Limit}.JP()
		p, err := jp.DecodePatch([]byte(c.Patch))
		if err != nil {
			return
		}
		poison, err := jp.DecodePatch([]byte(c.Patch[:len(c.Patch)-1] + `,{"op":"test","path":"","value":0}]`))
		if err != nil {
			poison, _ = jp.DecodePatch([]byte(`[{"op":"test","path":"","value":0}]`))
		}
		_, _ = poison.ApplyWithOptions([]byte(c.Doc), o)
		again.out, again.err = p.ApplyWithOptions([]byte(c.Doc), o)
	})
	if pn != nil {
		return pn
	}
	if (again.err == nil) != (fresh.err == nil) || string(again.out) != string(fresh.out) || (again.err != nil && again.err.Error() != fresh.err.Error()) {
		return fmt.Errorf("the same ApplyOptions value reused after a failing call changes the outcome: %v / %s with fresh options, %v / %s after the failing call", fresh.err, fresh.out, again.err, again.out)
	}
	return nil
}

func freeTotal(doc *ref.V, ops []ref.Op, esc bool) int64 {
	st := &ref.State{Root: doc.Clone()}
	for _, op := range ops {
		if r := ref.Step(st, op, ref.Opts{Neg: true, Esc: esc}); r.Cause != ref.COK {
			break
		}
	}
	return st.Lo
}

// ---------- any spelling: sizes measured in the output ----------

// SCase: document and patch in any spelling. The limit is placed relative to
// the measured running totals by the check itself (LimitAt selects a copy,
// Delta the offset), so that the case stays meaningful when replayed.
type SCase struct {
	Legacy  bool   `json:"legacy,omitempty"` // staged root package, limit through its package variable
	Doc     string `json:"doc"`
	Patch   string `json:"patch"`
	Esc     bool   `json:"escape_html"`
	LimitAt int    `json:"limit_at_copy"`
	Delta   int    `json:"limit_delta"`
}

// applyLegacy runs the staged root package with its package-level limit.
func applyLegacy(doc, patch string, o lib.Options) (r lib.Res) {
	r.Panic = ev.Safe(func() {
		p, err := jl.DecodePatch([]byte(patch))
		if err != nil {
			r.DecodeErr = err
			return
		}
		old := jl.AccumulatedCopySizeLimit
		jl.AccumulatedCopySizeLimit = o.Limit
		defer func() { jl.AccumulatedCopySizeLimit = old }()
		r.Out, r.Err = p.Apply([]byte(doc))
	})
	return r
}

func drawSpelled(legacy bool) func(t *rapid.T) SCase {
	return func(t *rapid.T) SCase { return drawSpelled1(t, legacy) }
}

func drawSpelled1(t *rapid.T, legacy bool) SCase {
	doc := gen.Default.Root().Draw(t, "doc")
	esc := legacy || rapid.Bool().Draw(t, "esc")
	g := gen.NewOpGen(true)
	g.NearMiss, g.TestMismatch = 0, 0
	g.Kinds = []string{"copy", "copy", "copy", "copy", "add", "remove", "replace", "move", "test"}
	if legacy {
		g.NoRootOps = true
		g.Legacy = true
		g.Kinds = []string{"copy", "copy", "copy", "copy", "add", "remove", "replace", "move"}
	}
	ro := ref.Opts{Neg: true, Esc: esc}
	st := &ref.State{Root: doc.Clone()}
	var ops []ref.Op
	n := gen.Uniform(t, 1, 7, "nops")
	for i := 0; i < n; i++ {
		op := g.Next(t, st.Root, i)
		trial := &ref.State{Root: st.Root.Clone(), Lo: st.Lo, Hi: st.Hi}
		if r := ref.Step(trial, op, ro); r.Cause != ref.COK {
			continue
		}
		st = trial
		ops = append(ops, op)
	}
	c := SCase{Legacy: legacy, Esc: esc, LimitAt: gen.Uniform(t, 0, 5, "at"), Delta: gen.Uniform(t, -2, 2, "delta")}
	// spelling: whitespace and alternative escapes, or the other setting's spelling of <, >, &
	switch gen.Uniform(t, 0, 3, "sp") {
	case 0:
		c.Doc, c.Patch = doc.Text(!esc), ref.OpsText(ops, !esc)
	case 1:
		c.Doc, c.Patch = gen.Spell(t, doc, "sd"), ref.OpsText(ops, esc)
	default:
		c.Doc, c.Patch = gen.Spell(t, doc, "sd"), gen.Spell(t, ref.OpsTree(ops), "sp")
	}
	return c
}

func checkSpelled(c SCase) ev.Verdict {
	o := lib.Options{Neg: true, Esc: c.Esc}
	apply := lib.Apply
	if c.Legacy {
		if !c.Esc {
			return ev.Excluded("the legacy package always escapes HTML")
		}
		apply = applyLegacy
		if _, lops, why := lib.ParseCase(c.Doc, c.Patch); why == "" {
			for _, op := range lops {
				if op.Op == "test" || op.Path == "" || (op.Op == "copy" && op.From == "") {
					return ev.Excluded("operation outside the legacy package's claims")
				}
			}
		}
	}
	lo, hi, n, why, err := lib.CopyTotals(c.Doc, c.Patch, o, apply)
	if why != "" {
		return ev.Excluded(why)
	}
	_, ops, _ := lib.ParseCase(c.Doc, c.Patch)
	if n < len(ops) {
		return ev.Excluded("an operation is inapplicable for another reason (C08)")
	}
	if err != nil {
		return ev.Verdict{Err: err}
	}
	var copyIdx []int
	for i, op := range ops {
		if op.Op == "copy" {
			copyIdx = append(copyIdx, i)
		}
	}
	if len(copyIdx) == 0 {
		return ev.Excluded("no copy operation")
	}
	k := copyIdx[((c.LimitAt%len(copyIdx))+len(copyIdx))%len(copyIdx)]
	limit := lo[k] + int64(c.Delta)
	if limit < 1 {
		limit = 1
	}
	// expectation from the measured totals
	failAt := -1
	for _, i := range copyIdx {
		if lo[i] > limit {
			failAt = i
			break
		}
		if hi[i] > limit {
			return ev.Excluded("copy limit falls inside the null-size interval")
		}
	}
	o.Limit = limit
	got := apply(c.Doc, c.Patch, o)
	if got.Panic != nil {
		return ev.Verdict{Err: got.Panic}
	}
	if got.DecodeErr != nil {
		return ev.Fail("DecodePatch rejected the patch: %v", got.DecodeErr)
	}
	var ace *jp.AccumulatedCopySizeError
	var lace *jl.AccumulatedCopySizeError
	isAce := errors.As(got.Err, &ace) || errors.As(got.Err, &lace)
	canonical := false
	if d, err := ref.Parse([]byte(c.Doc)); err == nil && d.Text(c.Esc) == c.Doc && ref.OpsText(ops, c.Esc) == c.Patch {
		canonical = true
	}
	v := ev.Verdict{Classes: []string{fmt.Sprintf("esc=%v", c.Esc), fmt.Sprintf("copies=%d", min(len(copyIdx), 4)), fmt.Sprintf("canonical-spelling=%v", canonical)}}
	v.NonTrivial = len(copyIdx) >= 2 && !canonical
	if failAt < 0 {
		v.Classes = append(v.Classes, "within-limit")
		if got.Err != nil {
			v.Err = fmt.Errorf("the copied values measure %d bytes in the output (compact, EscapeHTML=%v), within the limit %d, but Apply failed: %v", lo[len(lo)-1], c.Esc, limit, got.Err)
		}
		return v
	}
	v.Classes = append(v.Classes, "over-limit")
	if !isAce {
		v.Err = fmt.Errorf("after operation %d the copied values measure %d bytes in the output (compact, EscapeHTML=%v), over the limit %d, but Apply returned %v / %s", failAt, lo[failAt], c.Esc, limit, got.Err, got.Out)
		return v
	}
	if got.Out != nil {
		v.Err = fmt.Errorf("a patch stopped by the limit returned a document: %s", got.Out)
	}
	return v
}

var spelledUnit = ev.Unit[SCase]{
	Name: "any-spelling",
	Rule: "document and patch in ANY spelling (insignificant whitespace, alternative escapes, <, >, & spelled the other setting's way) x 1-7 applicable operations with ~45% copies x EscapeHTML; oracle without a spelling model: each copy's size is the length of the copied value's text in the output of the patch prefix ending at that copy, applied with the limit disabled (value located where the reference evaluator put it; a null counts 0..4); the limit is then set to a running total +-2 and Apply must fail with *AccumulatedCopySizeError and no document exactly when a measured total exceeds it; non-trivial = >=2 copies and a spelling other than the encoder's own",
	Draw: drawSpelled(false), Check: checkSpelled,
}
var spelledLegacyUnit = ev.Unit[SCase]{Name: "any-spelling-legacy", Rule: "staged legacy root package, limit through its package variable, no test and no root operations: " + spelledUnit.Rule, Draw: drawSpelled(true), Check: checkSpelled}

func TestPropSpelled(t *testing.T)       { ev.RunProp(t, "C12", spelledUnit) }
func TestPropSpelledLegacy(t *testing.T) { ev.RunProp(t, "C12", spelledLegacyUnit) }

const rule = "document and patch in the encoder's own spelling (strings with <, >, &, U+2028, nested containers, nulls) x 1-7 applicable operations with ~45% copies mixed with the other kinds x limit drawn from {0} and the interval +-2 around a running total x EscapeHTML; oracle: reference running total = sum of the canonical sizes of the copied values (a copied null counts 0..4 and a limit inside that interval is excluded): over the limit => *AccumulatedCopySizeError and nil document, within => success and the reference document, limit 0 => never; non-trivial = >=2 copies and a positive limit within +-2 of a running total"

var (
	optUnit    = ev.Unit[Case]{Name: "option", Rule: "ApplyOptions.AccumulatedCopySizeLimit: " + rule, Draw: drawVia("option"), Check: check}
	v5defUnit  = ev.Unit[Case]{Name: "v5-default", Rule: "v5 package variable AccumulatedCopySizeLimit + Patch.Apply (single goroutine, value restored): " + rule, Draw: drawVia("v5-default"), Check: check}
	legacyUnit = ev.Unit[Case]{Name: "legacy-default", Rule: "legacy root package variable AccumulatedCopySizeLimit + Patch.Apply (staged copy; no test, no root operations): " + rule, Draw: drawVia("legacy-default"), Check: check}
)

func TestProp(t *testing.T)       { ev.RunProp(t, "C12", optUnit) }
func TestPropV5Def(t *testing.T)  { ev.RunProp(t, "C12", v5defUnit) }
func TestPropLegacy(t *testing.T) { ev.RunProp(t, "C12", legacyUnit) }
func TestReplay(t *testing.T) {
	r := optUnit.Replayer() // all three units share the case type and check
	ev.Replay(t, map[string]ev.Replayer{optUnit.Name: r, v5defUnit.Name: r, legacyUnit.Name: r, spelledUnit.Name: spelledUnit.Replayer(), spelledLegacyUnit.Name: spelledUnit.Replayer()})
}
