// C12 — the accumulated copy-size limit bounds growth caused by copy
// (per-call option in v5, package default in v5 and in the legacy package).
package c12

import (
	"errors"
	"fmt"
	"testing"

	jl "github.com/evanphx/json-patch"
	jp "github.com/evanphx/json-patch/v5"
	"github.com/evanphx/json-patch/v5/xverif/ev"
	"github.com/evanphx/json-patch/v5/xverif/gen"
	"github.com/evanphx/json-patch/v5/xverif/lib"
	"github.com/evanphx/json-patch/v5/xverif/ref"
	"pgregory.net/rapid"
)

type Case struct {
	Doc   string `json:"doc"`
	Patch string `json:"patch"`
	Esc   bool   `json:"escape_html"`
	Limit int64  `json:"limit"`
	// Via: "option" (ApplyOptions.AccumulatedCopySizeLimit), "v5-default"
	// (package variable + Apply) or "legacy-default" (root package).
	Via string `json:"via"`
}

func drawVia(via string) func(t *rapid.T) Case {
	return func(t *rapid.T) Case {
		doc := gen.Default.Root().Draw(t, "doc")
		esc := true
		if via == "option" {
			esc = rapid.Bool().Draw(t, "esc")
		}
		g := gen.NewOpGen(true)
		g.NearMiss, g.TestMismatch = 0, 0
		g.Kinds = []string{"copy", "copy", "copy", "copy", "add", "remove", "replace", "move", "test"}
		if via == "legacy-default" {
			g.NoRootOps = true
			g.Kinds = []string{"copy", "copy", "copy", "copy", "add", "remove", "replace", "move"}
		}
		ro := ref.Opts{Neg: true, Esc: esc}
		st := &ref.State{Root: doc.Clone()}
		var ops []ref.Op
		var totals []int64
		n := gen.Uniform(t, 1, 7, "nops")
		for i := 0; i < n; i++ {
			op := g.Next(t, st.Root, i)
			trial := &ref.State{Root: st.Root.Clone(), Lo: st.Lo, Hi: st.Hi}
			r := ref.Step(trial, op, ro)
			if r.Cause != ref.COK {
				continue // keep applicable operations only
			}
			st = trial
			ops = append(ops, op)
			if r.Copied != nil {
				totals = append(totals, st.Lo, st.Hi)
			}
		}
		var limit int64
		if len(totals) > 0 && !gen.OneIn(t, 6, "zero") {
			limit = totals[rapid.IntRange(0, len(totals)-1).Draw(t, "tot")] + int64(gen.Uniform(t, -2, 2, "delta"))
			if limit < 1 {
				limit = 1
			}
		} else if !gen.OneIn(t, 3, "zero2") {
			limit = int64(rapid.IntRange(1, 60).Draw(t, "lim"))
		}
		return Case{Doc: doc.Text(esc), Patch: ref.OpsText(ops, esc), Esc: esc, Limit: limit, Via: via}
	}
}

type outcome struct {
	out   []byte
	err   error
	isAce bool
}

func run(c Case) (o outcome, perr error) {
	switch c.Via {
	case "option":
		r := lib.Apply(c.Doc, c.Patch, lib.Options{Neg: true, Esc: c.Esc, Limit: c.Limit})
		if r.Panic != nil {
			return o, r.Panic
		}
		if r.DecodeErr != nil {
			return o, fmt.Errorf("DecodePatch: %v", r.DecodeErr)
		}
		o.out, o.err = r.Out, r.Err
		var ace *jp.AccumulatedCopySizeError
		o.isAce = errors.As(r.Err, &ace)
	case "v5-default":
		perr = ev.Safe(func() {
			p, err := jp.DecodePatch([]byte(c.Patch))
			if err != nil {
				o.err = fmt.Errorf("DecodePatch: %v", err)
				return
			}
			old := jp.AccumulatedCopySizeLimit
			jp.AccumulatedCopySizeLimit = c.Limit
			defer func() { jp.AccumulatedCopySizeLimit = old }()
			o.out, o.err = p.Apply([]byte(c.Doc))
		})
		var ace *jp.AccumulatedCopySizeError
		o.isAce = errors.As(o.err, &ace)
	case "legacy-default":
		perr = ev.Safe(func() {
			p, err := jl.DecodePatch([]byte(c.Patch))
			if err != nil {
				o.err = fmt.Errorf("DecodePatch: %v", err)
				return
			}
			old := jl.AccumulatedCopySizeLimit
			jl.AccumulatedCopySizeLimit = c.Limit
			defer func() { jl.AccumulatedCopySizeLimit = old }()
			o.out, o.err = p.Apply([]byte(c.Doc))
		})
		var ace *jl.AccumulatedCopySizeError
		o.isAce = errors.As(o.err, &ace)
	default:
		return o, fmt.Errorf("unknown via %q", c.Via)
	}
	return o, perr
}

func check(c Case) ev.Verdict {
	doc, ops, why := lib.ParseCase(c.Doc, c.Patch)
	if why != "" {
		return ev.Excluded(why)
	}
	if c.Via != "option" && !c.Esc {
		return ev.Excluded("package defaults always escape HTML")
	}
	if doc.Text(c.Esc) != c.Doc || ref.OpsText(ops, c.Esc) != c.Patch {
		return ev.Excluded("spelling other than the encoder's own (sizes are defined on the output spelling)")
	}
	if c.Via == "legacy-default" {
		for _, op := range ops {
			if op.Op == "test" || op.Path == "" || (op.Op == "copy" && op.From == "") {
				return ev.Excluded("operation outside the legacy package's claims")
			}
		}
	}
	ro := ref.Opts{Neg: true, Esc: c.Esc, Limit: c.Limit}
	want := ref.Apply(doc, ops, ro)
	got, perr := run(c)
	if want.OutOfDomain() {
		return ev.Excluded("out of domain: "+want.Res.Why, "ood")
	}
	if !want.OK() && want.Res.Cause != ref.CCopyLimit {
		return ev.Excluded("an operation is inapplicable for another reason (C08)")
	}
	if perr != nil {
		return ev.Verdict{Err: perr}
	}
	// classification for the evidence
	free := ref.Apply(doc, ops, ref.Opts{Neg: true, Esc: c.Esc})
	copies, near := 0, false
	{
		st := &ref.State{Root: doc.Clone()}
		for _, op := range ops {
			r := ref.Step(st, op, ref.Opts{Neg: true, Esc: c.Esc})
			if r.Cause != ref.COK {
				break
			}
			if r.Copied != nil {
				copies++
				if d := st.Lo - c.Limit; d >= -2 && d <= 2 {
					near = true
				}
			}
		}
	}
	_ = free
	v := ev.Verdict{Classes: []string{c.Via, fmt.Sprintf("esc=%v", c.Esc), fmt.Sprintf("copies=%d", min(copies, 4))}}
	v.NonTrivial = copies >= 2 && near && c.Limit > 0
	switch {
	case c.Limit == 0:
		v.Classes = append(v.Classes, "limit=0")
	case want.OK():
		v.Classes = append(v.Classes, "within-limit")
	default:
		v.Classes = append(v.Classes, "over-limit")
	}
	if want.OK() {
		if got.err != nil {
			v.Err = fmt.Errorf("total stays within the limit %d (reference totals lo=%d) but Apply failed: %v", c.Limit, freeTotal(doc, ops, c.Esc), got.err)
			return v
		}
		out, err := ref.Parse(got.out)
		if err != nil || !ref.Equal(out, want.Doc) {
			v.Err = fmt.Errorf("result differs from the reference: %s want %s", got.out, want.Doc)
		}
		return v
	}
	if !got.isAce {
		v.Err = fmt.Errorf("copy %d pushes the total over the limit %d but Apply returned %v / %s", want.FailAt, c.Limit, got.err, got.out)
		return v
	}
	if got.out != nil {
		v.Err = fmt.Errorf("a patch stopped by the limit returned a document: %s", got.out)
	}
	return v
}

func freeTotal(doc *ref.V, ops []ref.Op, esc bool) int64 {
	st := &ref.State{Root: doc.Clone()}
	for _, op := range ops {
		if r := ref.Step(st, op, ref.Opts{Neg: true, Esc: esc}); r.Cause != ref.COK {
			break
		}
	}
	return st.Lo
}

const rule = "document and patch in the encoder's own spelling (strings with <, >, &, U+2028, nested containers, nulls) x 1-7 applicable operations with ~45% copies mixed with the other kinds x limit drawn from {0} and the interval +-2 around a running total x EscapeHTML; oracle: reference running total = sum of the canonical sizes of the copied values (a copied null counts 0..4 and a limit inside that interval is excluded): over the limit => *AccumulatedCopySizeError and nil document, within => success and the reference document, limit 0 => never; non-trivial = >=2 copies and a positive limit within +-2 of a running total"

var (
	optUnit    = ev.Unit[Case]{Name: "option", Rule: "ApplyOptions.AccumulatedCopySizeLimit: " + rule, Draw: drawVia("option"), Check: check}
	v5defUnit  = ev.Unit[Case]{Name: "v5-default", Rule: "v5 package variable AccumulatedCopySizeLimit + Patch.Apply (single goroutine, value restored): " + rule, Draw: drawVia("v5-default"), Check: check}
	legacyUnit = ev.Unit[Case]{Name: "legacy-default", Rule: "legacy root package variable AccumulatedCopySizeLimit + Patch.Apply (staged copy; no test, no root operations): " + rule, Draw: drawVia("legacy-default"), Check: check}
)

func TestProp(t *testing.T)       { ev.RunProp(t, "C12", optUnit) }
func TestPropV5Def(t *testing.T)  { ev.RunProp(t, "C12", v5defUnit) }
func TestPropLegacy(t *testing.T) { ev.RunProp(t, "C12", legacyUnit) }
func TestReplay(t *testing.T) {
	r := optUnit.Replayer() // all three units share the case type and check
	ev.Replay(t, map[string]ev.Replayer{optUnit.Name: r, v5defUnit.Name: r, legacyUnit.Name: r})
}
