module github.com/evanphx/json-patch/v5/xverif

go 1.23

require (
	github.com/evanphx/json-patch/v5 v5.0.0
	pgregory.net/rapid v1.3.0
)

replace github.com/evanphx/json-patch/v5 => /repo/v5
