#!/usr/bin/env python3
"""Regenerates MANIFEST.json from props.py (python3 mkmanifest.py)."""
import json, os, sys
sys.path.insert(0, os.path.dirname(os.path.abspath(__file__)))
from props import PROPS, NOT_APPLICABLE

ALL = ["C%02d" % i for i in range(1, 21)]
checks = []
for pid in ALL:
    if pid not in PROPS:
        continue
    s = PROPS[pid]
    checks.append({
        "property_id": pid,
        "quick_cmd": "python3 verif.py check %s --tier quick" % pid,
        "thorough_cmd": "python3 verif.py check %s --tier thorough" % pid,
        "evidence_file": "/verif/evidence/%s.json" % pid,
        "replay_cmd_template": "python3 verif.py replay %s {path}" % pid,
        "engine": "rapid-harness",
        "level_claimed": {"category": "exploration", "text": s["level_text"], "design_ref": "DESIGN.md section 4, %s" % pid},
        "level_note": s["level_note"],
        "technique": s["technique"],
    })
na = [{"property_id": p, "reason": NOT_APPLICABLE[p]} for p in ALL if p not in PROPS]
m = {
    "version": 1,
    "setup_cmd": "python3 verif.py setup",
    "hooks": {
        "guard": "verif",
        "enable": "go test -tags verif (no hook sources exist: every observable is a return value, an output byte, an exit status or a race-detector report, so the tag changes nothing in /repo)",
        "baseline_off_cmd": "cd /repo/v5 && env -u GOFLAGS go test -json -vet=off -count=1 -timeout 25m ./...",
        "source_commits": [],
        "add_only": True,
    },
    "engines": [{
        "name": "rapid-harness",
        "path": "/verif/harness",
        "serves_properties": [c["property_id"] for c in checks],
        "kind_free_text": "Go module (pgregory.net/rapid v1.3.0 generators, bounded exhaustive enumeration, native go fuzzing and race-detector stress in the thorough tier) built against /repo's working tree on every run; oracles in harness/ref share no code with the library; driver /verif/verif.py",
    }],
    "checks": checks,
    "not_applicable": na,
    "notes": "Genuine defects found on the pinned tree were repaired by fix: commits in /repo and are listed as fixed: lines in KNOWN_FINDINGS.txt; their minimal inputs are re-run by every check (replays/<id>/).",
}
with open(os.path.join(os.path.dirname(os.path.abspath(__file__)), "MANIFEST.json"), "w") as f:
    json.dump(m, f, indent=1)
    f.write("\n")
print("wrote MANIFEST.json: %d checks, %d not_applicable" % (len(checks), len(na)))
