#!/usr/bin/env python3
"""Driver for the json-patch property checks (python3 stdlib only).

  python3 verif.py setup
  python3 verif.py check <ID> [--tier quick|thorough]
  python3 verif.py replay <ID> <file>
  python3 verif.py list

Exit status of check/replay: 0 = property held on everything explored
(possibly with KNOWN-FINDING lines), 1 = at least one VIOLATION line printed,
2 = inconclusive infrastructure outcome (build failure, timeout, killed shard).
"""
import array
import hashlib
import json
import os
import shutil
import signal
import subprocess
import sys
import tempfile
import time

VERIF = os.path.dirname(os.path.abspath(__file__))
HARNESS = os.path.join(VERIF, "harness")
REPO = os.environ.get("VERIF_REPO", "/repo")
MODPATH = "github.com/evanphx/json-patch/v5/xverif"
# VERIF_OUT redirects what a run writes (evidence, captured replays) - used when
# the checks are pointed at a scratch tree (VERIF_REPO) for sensitivity runs.
OUT = os.environ.get("VERIF_OUT") or VERIF

sys.path.insert(0, VERIF)
from props import PROPS  # noqa: E402


def goenv():
    e = dict(os.environ)
    e.update(GOFLAGS="-mod=mod", GOPROXY="off", GOSUMDB="off", GOTOOLCHAIN="local", CGO_ENABLED=e.get("CGO_ENABLED", "1"))
    return e


def log(*a):
    print(*a, flush=True)


HANG_CPU = int(os.environ.get("VERIF_HANG_CPU", "120"))  # CPU seconds that confirm a nominated hang


class Inconclusive(Exception):
    pass


class Run:
    """One staged run directory outside /repo and /verif, removed at the end."""

    def __init__(self, tag):
        base = os.environ.get("VERIF_TMP") or tempfile.gettempdir()
        self.dir = tempfile.mkdtemp(prefix="verif-%s-" % tag, dir=base)
        for d in ("bin", "parts", "fail", "logs", "fuzz"):
            os.makedirs(os.path.join(self.dir, d))
        self.modfile = os.path.join(self.dir, "go.mod")
        self.stage()

    def stage(self):
        # legacy root package: no go.mod in the repository, so stage a copy as a module
        leg = os.path.join(self.dir, "legacy")
        os.makedirs(os.path.join(leg, "cmd", "json-patch"))
        for f in ("patch.go", "merge.go", "errors.go"):
            shutil.copy(os.path.join(REPO, f), leg)
        for f in os.listdir(os.path.join(REPO, "cmd", "json-patch")):
            if f.endswith(".go"):
                shutil.copy(os.path.join(REPO, "cmd", "json-patch", f), os.path.join(leg, "cmd", "json-patch"))
        with open(os.path.join(leg, "go.mod"), "w") as f:
            f.write("module github.com/evanphx/json-patch\n\ngo 1.18\n\nrequire github.com/jessevdk/go-flags v1.6.1\n\nrequire golang.org/x/sys v0.21.0 // indirect\n")
        shutil.copy(os.path.join(REPO, "v5", "go.sum"), os.path.join(leg, "go.sum"))
        with open(os.path.join(HARNESS, "go.mod")) as f:
            mod = f.read()
        mod = mod.replace("=> /repo/v5", "=> %s/v5" % REPO)
        mod += "\nrequire github.com/evanphx/json-patch v0.0.0\n\nreplace github.com/evanphx/json-patch => %s\n" % leg
        with open(self.modfile, "w") as f:
            f.write(mod)
        shutil.copy(os.path.join(HARNESS, "go.sum"), os.path.join(self.dir, "go.sum"))

    def build_test(self, pkg, race=False, fuzz=False):
        out = os.path.join(self.dir, "bin", pkg + (".race" if race else "") + (".fuzz" if fuzz else "") + ".test")
        if os.path.exists(out):
            return out
        cmd = ["go", "test", "-c", "-modfile=" + self.modfile, "-tags", "verif", "-vet=off", "-o", out]
        if race:
            cmd.append("-race")
        if fuzz:
            cmd.append("-fuzz=Fuzz")  # coverage instrumentation for the native fuzzer
        cmd.append("./" + pkg)
        p = subprocess.run(cmd, cwd=HARNESS, env=goenv(), stdout=subprocess.PIPE, stderr=subprocess.STDOUT, text=True)
        if p.returncode != 0 or not os.path.exists(out):
            raise Inconclusive("build of %s failed:\n%s" % (pkg, p.stdout[-4000:]))
        return out

    def build_cli(self, which):
        """which: 'v5' or 'legacy' -> path of the built json-patch binary."""
        out = os.path.join(self.dir, "bin", "json-patch-" + which)
        if os.path.exists(out):
            return out
        env = goenv()
        if which == "v5":
            env.pop("GOFLAGS", None)  # plain -mod=readonly: /repo/v5/go.sum is never rewritten
            cwd = os.path.join(REPO, "v5")
        else:
            cwd = os.path.join(self.dir, "legacy")
        p = subprocess.run(["go", "build", "-o", out, "./cmd/json-patch"], cwd=cwd, env=env, stdout=subprocess.PIPE, stderr=subprocess.STDOUT, text=True)
        if p.returncode != 0:
            raise Inconclusive("build of %s json-patch command failed:\n%s" % (which, p.stdout[-4000:]))
        return out

    def cleanup(self):
        shutil.rmtree(self.dir, ignore_errors=True)


def seed_for(base, k):
    # rapid treats seed 0 as "random": never 0
    return 1 + 1000 * base + k


class Job:
    def __init__(self, name, cmd, env, cwd, logpath, failpath, partpath, timeout, kind, requested=None):
        self.name, self.cmd, self.env, self.cwd = name, cmd, env, cwd
        self.logpath, self.failpath, self.partpath = logpath, failpath, partpath
        self.timeout, self.kind, self.requested = timeout, kind, requested
        self.proc = None
        self.rc = None
        self.timed_out = False

    def start(self):
        self.t0 = time.time()
        self.logf = open(self.logpath, "wb")
        self.proc = subprocess.Popen(self.cmd, cwd=self.cwd, env=self.env, stdout=self.logf, stderr=subprocess.STDOUT, start_new_session=True)

    def poll(self):
        if self.rc is not None:
            return True
        rc = self.proc.poll()
        if rc is None:
            if time.time() - self.t0 > self.timeout:
                self.timed_out = True
                try:
                    os.killpg(self.proc.pid, signal.SIGKILL)
                except ProcessLookupError:
                    pass
                self.proc.wait()
                rc = self.proc.returncode
            else:
                return False
        self.rc = rc
        self.logf.close()
        self.wall = time.time() - self.t0
        return True

    def output(self):
        with open(self.logpath, "rb") as f:
            return f.read().decode("utf-8", "replace")


def run_jobs(jobs, parallel):
    pending = list(jobs)
    running = []
    while pending or running:
        while pending and len(running) < parallel:
            j = pending.pop(0)
            j.start()
            running.append(j)
        running = [j for j in running if not j.poll()]
        time.sleep(0.05)


def save_replay(pid, failpath):
    with open(failpath, "rb") as f:
        data = f.read()
    h = hashlib.sha256(data).hexdigest()[:16]
    d = os.path.join(OUT, "replays", pid, "found")
    os.makedirs(d, exist_ok=True)
    dst = os.path.join(d, h + ".json")
    with open(dst, "wb") as f:
        f.write(data)
    return dst


def known_findings():
    known, fixed = [], []
    p = os.path.join(VERIF, "KNOWN_FINDINGS.txt")
    if not os.path.exists(p):
        return known, fixed
    for line in open(p):
        line = line.strip()
        if line.startswith("known:"):
            toks = line.split()
            f = dict(kv.split("=", 1) for kv in toks[1:4] if "=" in kv)
            f["text"] = "key=%s %s" % (f.get("key", "?"), " ".join(toks[4:]))
            known.append(f)
        elif line.startswith("fixed:"):
            fixed.append(line)
    return known, fixed


def check(pid, tier, seed):
    t0 = time.time()
    spec = PROPS[pid]
    run = Run(pid)
    violations = []  # replay paths
    inconclusive = []
    fuzz_stats = {}
    known_lines = []
    try:
        K = spec.get("shards", {}).get(tier, 4 if tier == "quick" else 16)
        parallel = int(os.environ.get("VERIF_PARALLEL", "16"))
        jobs = []
        bins = {}
        helper_env = {}
        for h in spec.get("helpers", []):
            if h in ("cli-v5", "cli-legacy"):
                helper_env["VERIF_CLI_" + h[4:].upper()] = run.build_cli(h[4:])
        u_pkg = {u["test"]: u.get("pkg", spec["pkg"]) for u in spec["units"]}
        for u in spec["units"]:
            if tier not in u.get("tiers", ("quick", "thorough")):
                continue
            race = u.get("race", False)
            kind = u.get("kind", "rapid")
            key = (u.get("pkg", spec["pkg"]), race) if kind != "fuzz" else (u.get("pkg", spec["pkg"]), "fuzz")
            if key not in bins:
                bins[key] = run.build_test(key[0], race, kind == "fuzz")
            binp = bins[key]
            n = u["n"][tier]
            scale = float(os.environ.get("VERIF_SCALE", "1"))  # development aid: shrink the counts
            if scale != 1 and kind in ("rapid", "fuzz"):
                n = max(1, int(n * scale))
            shards = u.get("shards", {}).get(tier, K)
            for k in range(shards):
                name = "%s.%d" % (u["test"], k)
                env = goenv()
                env.update(helper_env)
                env["VERIF_TIER"] = tier
                env["VERIF_SEED"] = str(seed)
                env["VERIF_SHARD"] = "%d/%d" % (k, shards)
                env["VERIF_RUNDIR"] = run.dir
                partpath = os.path.join(run.dir, "parts", name)
                env["VERIF_PART"] = partpath
                failpath = os.path.join(run.dir, "fail", name + ".json")
                env["VERIF_FAIL"] = failpath
                env["VERIF_N"] = str(n)
                env["GOMEMLIMIT"] = u.get("memlimit", "3GiB")
                if race:
                    env["GORACE"] = "halt_on_error=1 exitcode=66 atexit_sleep_ms=0"
                wd = os.path.join(run.dir, "wd", name)
                os.makedirs(wd)
                cmd = [binp, "-test.run", "^%s$" % u["test"], "-test.timeout", "0", "-test.count", "1"]
                if kind == "rapid":
                    cmd += ["-rapid.checks=%d" % n, "-rapid.seed=%d" % seed_for(seed, k), "-rapid.shrinktime=%s" % u.get("shrinktime", "45s"), "-rapid.nofailfile"]
                if kind == "fuzz":
                    cdir = os.path.join(run.dir, "fuzz", name)
                    os.makedirs(cdir)
                    src = os.path.join(VERIF, "corpus", pid, u["test"])
                    cmd = [binp, "-test.run", "^$", "-test.fuzz", "^%s$" % u["test"], "-test.fuzztime", "%ds" % n,
                           "-test.fuzzcachedir", cdir, "-test.parallel", str(u.get("workers", 16)), "-test.timeout", "0"]
                    env["VERIF_CORPUS"] = src
                    env.pop("VERIF_PART", None)  # worker processes would clobber one another's parts
                timeout = u.get("timeout", {}).get(tier, 900 if tier == "quick" else 7200)
                jobs.append(Job(name, cmd, env, wd, os.path.join(run.dir, "logs", name + ".log"), failpath, partpath, timeout, kind, n))
        # fuzz jobs use all cores: run them alone, after the others
        normal = [j for j in jobs if j.kind != "fuzz"]
        fuzz = [j for j in jobs if j.kind == "fuzz"]
        run_jobs(normal, parallel)
        for j in fuzz:
            run_jobs([j], 1)
        # a process that died (fatal error such as a stack overflow, a signal) without leaving its case
        # behind is run once more, same seed, with every case written to the pending file first
        for j in jobs:
            if j.kind == "fuzz" or j.timed_out or j.rc in (0, 1, 3):
                continue
            if os.path.exists(j.failpath) or os.path.exists(j.failpath + ".pending") or os.path.exists(j.failpath + ".hang"):
                continue
            log("---- %s died with exit %s leaving no case behind; running it again with the pending-case file" % (j.name, j.rc))
            j2 = Job(j.name, j.cmd, dict(j.env, VERIF_PENDING="1"), j.cwd, j.logpath + ".rerun", j.failpath, j.partpath, j.timeout, j.kind, j.requested)
            run_jobs([j2], 1)
            j.rc, j.timed_out, j.logpath = j2.rc, j2.timed_out, j2.logpath
        hang_done = ""
        for j in jobs:
            out = j.output()
            if j.timed_out:
                inconclusive.append("%s: wall-clock cap of %ds hit" % (j.name, j.timeout))
                continue
            if j.kind == "fuzz":
                import re
                m = re.findall(r"execs: (\d+) \(\d+/sec\), new interesting: \d+ \(total: (\d+)\)", out)
                if m:
                    fuzz_stats[j.name.rsplit(".", 1)[0]] = (int(m[-1][0]), int(m[-1][1]), j.requested)
            if j.rc == 0:
                if j.kind == "rapid":
                    # rapid prints "OK, passed N tests" - fewer than requested means a deadline cut it short
                    import re
                    m = re.search(r"OK, passed (\d+) tests", out)
                    if m and int(m.group(1)) < j.requested:
                        inconclusive.append("%s: only %s of %d cases ran" % (j.name, m.group(1), j.requested))
                continue
            if os.path.exists(j.failpath + ".hang") and hang_done:
                log("---- %s: another case was nominated as a hang; one confirmation per run (%s)" % (j.name, hang_done))
                if hang_done != "confirmed":
                    inconclusive.append("%s: a case exceeded the wall-clock watchdog (not confirmed separately)" % j.name)
                continue
            if os.path.exists(j.failpath + ".hang"):
                # the per-case watchdog nominated a hang: confirm it in a fresh process under a CPU-time limit
                hp = j.failpath + ".hang"
                try:
                    with open(hp) as f:
                        obj = json.load(f)
                    obj["message"] = "a call did not return: the case was stopped by the watchdog after %ss of wall-clock time and again, alone in a fresh process, by the kernel after %d s of CPU time" % (os.environ.get("VERIF_HANG_WALL", "30"), HANG_CPU)
                    obj.setdefault("pkg", u_pkg.get(j.name.rsplit(".", 1)[0], spec["pkg"]))
                    with open(hp, "w") as f:
                        json.dump(obj, f, indent=1)
                    r = replay_files(run, spec, bins, [hp], cpu_limit=HANG_CPU)
                    status = r.get(hp, ("ERROR", ""))[0]
                except Exception as e:
                    status = "ERROR %s" % e
                hang_done = "confirmed" if status in ("HANG", "FAIL") else "not confirmed"
                if status in ("HANG", "FAIL"):
                    # FAIL: alone in a fresh process the case dies (e.g. the runtime's "all goroutines are asleep - deadlock!")
                    violations.append(save_replay(pid, hp))
                    log("---- %s: hang confirmed in a fresh process (%s)" % (j.name, r.get(hp, ("", ""))[1][:300]))
                else:
                    inconclusive.append("%s: a case exceeded the wall-clock watchdog but the confirmation run ended with %s (slow, not a hang)" % (j.name, status))
                continue
            if os.path.exists(j.failpath):
                violations.append(save_replay(pid, j.failpath))
                log("---- %s failed; tail of its log:" % j.name)
                log(out[-3000:])
            elif os.path.exists(j.failpath + ".pending") and (j.rc < 0 or j.rc in (2, 66) or "fatal error" in out or "DATA RACE" in out):
                # the process died while a case was in flight (fatal error, race report, signal)
                with open(j.failpath + ".pending", "rb") as f:
                    pend = f.read()
                try:
                    obj = json.loads(pend)
                    at = max(out.find("WARNING: DATA RACE"), out.find("fatal error:"))
                    obj["message"] = "process died during this case (exit %s): %s" % (j.rc, out[at:at + 4000] if at >= 0 else out[-1500:])
                    with open(j.failpath, "w") as f:
                        json.dump(obj, f, indent=1)
                    violations.append(save_replay(pid, j.failpath))
                except Exception:
                    inconclusive.append("%s: exit %s, pending case unreadable" % (j.name, j.rc))
                log("---- %s died; tail of its log:" % j.name)
                log(out[-3000:])
            else:
                inconclusive.append("%s: exit %s without a failing case" % (j.name, j.rc))
                log("---- %s exit %s; tail of its log:" % (j.name, j.rc))
                log(out[-3000:])

        # regression tier: saved replays (past violations, fixed defects) and known findings
        reg_total = reg_fail = 0
        rdir = os.path.join(VERIF, "replays", pid)
        files = []
        if os.path.isdir(rdir):
            for root, _, fs in os.walk(rdir):
                if os.path.basename(root) == "found":
                    continue  # raw captures of this or earlier runs; curated ones live beside
                files += [os.path.join(root, f) for f in sorted(fs) if f.endswith(".json")]
        known, _fixed = known_findings()
        known_here = [k for k in known if k.get("property") == pid]
        known_paths = {os.path.join(VERIF, k["replay"]): k for k in known_here if "replay" in k}
        files = [f for f in files if f not in known_paths]
        results = replay_files(run, spec, bins, files + list(known_paths))
        for path, (status, msg) in results.items():
            if path in known_paths:
                if status == "FAIL" or (status == "EXCLUDED" and msg.startswith("known:")):
                    known_lines.append("KNOWN-FINDING: property=%s %s" % (pid, known_paths[path]["text"]))
                else:
                    log("note: known finding %s no longer reproduces (%s)" % (known_paths[path].get("key"), status))
                continue
            reg_total += 1
            if status == "FAIL":
                reg_fail += 1
                violations.append(path)
                log("regression replay failed: %s: %s" % (path, msg))
            elif status == "ERROR":
                inconclusive.append("replay %s: %s" % (path, msg))

        ev = merge_evidence(pid, tier, seed, run, spec, time.time() - t0, len(violations), reg_total, inconclusive, fuzz_stats)
        os.makedirs(os.path.join(OUT, "evidence"), exist_ok=True)
        with open(os.path.join(OUT, "evidence", pid + ".json"), "w") as f:
            json.dump(ev, f, indent=1, ensure_ascii=False)
            f.write("\n")
        cov = ev["coverage"]
        log("%s %s seed=%d: %d cases, %d in domain, %d distinct non-trivial, %d regression replays, %.1fs" % (
            pid, tier, seed, cov["evaluations"], cov.get("in_domain", 0), cov["distinct_nontrivial"], reg_total, time.time() - t0))
    except Inconclusive as e:
        log("INCONCLUSIVE property=%s %s" % (pid, e))
        return 2
    finally:
        if os.environ.get("VERIF_KEEP"):
            log("kept run dir " + run.dir)
        else:
            run.cleanup()
    for l in known_lines:
        log(l)
    if violations:
        for v in sorted(set(violations)):
            log("VIOLATION property=%s replay=%s" % (pid, v))
        return 1
    if inconclusive:
        for i in inconclusive:
            log("INCONCLUSIVE property=%s %s" % (pid, i))
        return 2
    return 0


def replay_files(run, spec, bins, files, cpu_limit=None):
    """Re-run saved cases through TestReplay of the package(s); returns path -> (status, msg).
    With cpu_limit (seconds of CPU time, RLIMIT_CPU) a process that the kernel
    stops for exceeding it yields status HANG for the files it had not answered."""
    res = {}
    if not files:
        return res
    by_pkg = {}
    for f in files:
        try:
            with open(f) as fh:
                obj = json.load(fh)
            pkg = obj.get("pkg") or spec["pkg"]
            race = bool(obj.get("race"))
        except Exception as e:
            res[f] = ("ERROR", "unreadable: %s" % e)
            continue
        by_pkg.setdefault((pkg, race), []).append(f)
    for (pkg, race), fs in by_pkg.items():
        if (pkg, race) not in bins:
            bins[(pkg, race)] = run.build_test(pkg, race)
        env = goenv()
        env["VERIF_REPLAY"] = ":".join(fs)
        env["VERIF_RUNDIR"] = run.dir
        if race:
            env["GORACE"] = "halt_on_error=1 exitcode=66 atexit_sleep_ms=0"
        for h in spec.get("helpers", []):
            if h in ("cli-v5", "cli-legacy"):
                env["VERIF_CLI_" + h[4:].upper()] = run.build_cli(h[4:])
        wd = os.path.join(run.dir, "wd", "replay-" + pkg)
        os.makedirs(wd, exist_ok=True)
        pre = None
        if cpu_limit:
            def pre(lim=cpu_limit):
                import resource
                resource.setrlimit(resource.RLIMIT_CPU, (lim, lim + 5))
        try:
            p = subprocess.run([bins[(pkg, race)], "-test.run", "^TestReplay$", "-test.count", "1", "-test.timeout", "0" if cpu_limit else "600s"],
                               cwd=wd, env=env, stdout=subprocess.PIPE, stderr=subprocess.STDOUT, text=True, errors="replace", preexec_fn=pre,
                               timeout=(20 * cpu_limit) if cpu_limit else 900)
        except subprocess.TimeoutExpired:
            for f in fs:
                res[f] = ("ERROR", "replay process exceeded its wall-clock cap")
            continue
        for line in p.stdout.splitlines():
            if line.startswith("REPLAY "):
                parts = line.split(" ", 3)
                if len(parts) >= 3:
                    res[parts[1]] = (parts[2], parts[3] if len(parts) > 3 else "")
        for f in fs:
            if f not in res:
                # the process died before reporting this file
                if cpu_limit and p.returncode in (-signal.SIGXCPU, -signal.SIGKILL):
                    res[f] = ("HANG", "stopped by the kernel after %d s of CPU time" % cpu_limit)
                else:
                    res[f] = ("FAIL" if p.returncode != 0 else "ERROR", "no verdict line; output tail: " + p.stdout[-600:].replace("\n", " | "))
    return res


def merge_evidence(pid, tier, seed, run, spec, wall, nviol, nreg, inconclusive, fuzz_stats=None):
    pdir = os.path.join(run.dir, "parts")
    units = {}
    hashes = {}
    for target, (execs, interesting, secs) in (fuzz_stats or {}).items():
        units["fuzz:" + target] = {
            "rule": "native coverage-guided fuzzing (go test -fuzz %s, %d s, 16 workers, seeded with the hostile constants); the target decodes the bytes into a case of the byte-level unit and runs the same check; evaluations = executions, distinct non-trivial = corpus entries that reached new coverage (as counted by the fuzzer)" % (target, secs),
            "evaluations": execs, "in_domain": execs, "nontrivial": interesting, "excluded": {}, "classes": {}, "samples": [],
            "extra": {"distinct_by_construction": interesting}, "shards": 1}
    for f in sorted(os.listdir(pdir)):
        if not f.endswith(".json"):
            continue
        with open(os.path.join(pdir, f)) as fh:
            part = json.load(fh)
        u = units.setdefault(part["unit"], {"rule": part.get("rule", ""), "evaluations": 0, "in_domain": 0, "nontrivial": 0,
                                            "excluded": {}, "classes": {}, "samples": [], "extra": {}, "shards": 0})
        u["shards"] += 1
        for k in ("evaluations", "in_domain", "nontrivial"):
            u[k] += part.get(k, 0)
        for k in ("excluded", "classes"):
            for kk, vv in (part.get(k) or {}).items():
                u[k][kk] = u[k].get(kk, 0) + vv
        for s in part.get("samples") or []:
            if len(u["samples"]) < 8:
                u["samples"].append(s)
        for kk, vv in (part.get("extra") or {}).items():
            if isinstance(vv, (int, float)) and not isinstance(vv, bool) and not kk.startswith("max_"):
                u["extra"][kk] = u["extra"].get(kk, 0) + vv
            else:
                u["extra"][kk] = vv
        hp = os.path.join(pdir, f[:-5] + ".hashes")
        if os.path.exists(hp):
            a = array.array("Q")
            with open(hp, "rb") as fh:
                a.frombytes(fh.read())
            hashes.setdefault(part["unit"], set()).update(a)
    total_eval = sum(u["evaluations"] for u in units.values())
    total_dom = sum(u["in_domain"] for u in units.values())
    distinct = 0
    for name, u in units.items():
        d = len(hashes.get(name, ()))
        d += int(u["extra"].get("distinct_by_construction", 0))
        u["distinct_nontrivial"] = d
        distinct += d
        # keep class histograms readable
        if len(u["classes"]) > 60:
            top = sorted(u["classes"].items(), key=lambda kv: -kv[1])
            u["classes"] = dict(top[:60])
            u["classes"]["(other classes)"] = sum(v for _, v in top[60:])
    samples = []
    for name, u in units.items():
        for s in u["samples"][:4]:
            samples.append({"unit": name, "case": s})
    rule = " || ".join("%s: %s" % (n, u["rule"]) for n, u in units.items())
    ev = {
        "property_id": pid,
        "tier": tier,
        "seed": seed,
        "level": "exploration",
        "coverage": {
            "evaluations": total_eval,
            "in_domain": total_dom,
            "distinct_nontrivial": distinct,
            "rule": rule,
            "samples": samples,
            "units": units,
            "regression_replays": nreg,
            "exhaustive": bool(spec.get("exhaustive_units")) and all(
                units.get(x, {}).get("extra", {}).get("exhaustive") for x in spec.get("exhaustive_units", [])),
        },
        "assumptions": spec.get("assumptions", []),
        "wall_s": round(wall, 2),
        "violations": nviol,
    }
    if inconclusive:
        ev["coverage"]["inconclusive"] = inconclusive
    return ev


def replay(pid, path):
    spec = PROPS[pid]
    run = Run(pid + "-replay")
    try:
        res = replay_files(run, spec, {}, [os.path.abspath(path)])
    except Inconclusive as e:
        log("INCONCLUSIVE property=%s %s" % (pid, e))
        return 2
    finally:
        run.cleanup()
    for p, (status, msg) in res.items():
        log("replay %s: %s %s" % (p, status, msg))
        if status == "FAIL":
            log("VIOLATION property=%s replay=%s" % (pid, p))
            return 1
        if status == "ERROR":
            return 2
    return 0


def setup():
    """Warm the build cache: compile every test binary and helper once."""
    run = Run("setup")
    try:
        seen = set()
        for pid, spec in PROPS.items():
            for u in spec["units"]:
                key = (u.get("pkg", spec["pkg"]), u.get("race", False))
                if key in seen:
                    continue
                seen.add(key)
                run.build_test(*key)
            for h in spec.get("helpers", []):
                if h in ("cli-v5", "cli-legacy"):
                    run.build_cli(h[4:])
        log("setup ok: built %d test binaries" % len(seen))
        return 0
    except Inconclusive as e:
        log("setup failed: %s" % e)
        return 1
    finally:
        run.cleanup()


def main(argv):
    if len(argv) < 2:
        print(__doc__)
        return 2
    if argv[1] == "setup":
        return setup()
    if argv[1] == "list":
        for k in PROPS:
            print(k)
        return 0
    if argv[1] == "check":
        pid = argv[2]
        tier = os.environ.get("VERIF_TIER", "quick")
        if "--tier" in argv:
            tier = argv[argv.index("--tier") + 1]
        seed = int(os.environ.get("VERIF_SEED", "1") or "1")
        return check(pid, tier, seed)
    if argv[1] == "replay":
        return replay(argv[2], argv[3])
    if argv[1] == "gotest":
        # development aid: go test with the staged modfile, e.g. verif.py gotest ./c12 -run TestProp -rapid.checks=1000
        run = Run("dev")
        try:
            return subprocess.call(["go", "test", "-modfile=" + run.modfile, "-tags", "verif", "-vet=off"] + argv[2:], cwd=HARNESS, env=goenv())
        finally:
            run.cleanup()
    print(__doc__)
    return 2


if __name__ == "__main__":
    sys.exit(main(sys.argv))
